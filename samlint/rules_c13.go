package main

import (
	"fmt"
	"go/constant"
	"go/token"
	"go/types"
	"sort"
	"strings"

	"golang.org/x/tools/go/ssa"
)

func init() {
	register(&propDef{
		id: "C13",
		li: levelInfo{
			Level:       "other",
			Explanation: "Static rules on the compression filter. R1: every in-place mutation of the request body reachable from a Filter.Do is dominated by a once-guard (a per-request flag that is tested and set), because the filter chain runs again when a request is resent after a redirect. R2: each copy into the original value has a zone witness len(source) <= len(destination) and the returned slice is strictly shorter than the original; otherwise the original slice is returned untouched. R3: the per-command value offsets and the stride equal the Redis syntax reference. R4: the banned set equals the documented list and that path completes the request and returns Stop. R5: header written = magic, algorithm byte, CR LF with length cpsHdrLen; the reader tests and strips the same offsets. R6: the decompress hook is registered under no condition other than nil-config tests and the skip set, in particular before the Enable test; the skip set is disjoint from the commands that return string/hash values. R7: the pooled writer is closed exactly once on every path and no slice of a pooled buffer's bytes is returned or stored. snappy itself and byte identity for all values are not decided. R8: the array arm of the reply decompression recurses into every element, in place or with write-back. R9 (shared with C08.R9): the compression options are read from the live configuration holder. R10: no request of the flagged type is constructed around the body of another request of that type unless the once-only flags are copied along. R11 (shared with C19.R11): pooled work buffers are copied out before release. R12 (shared with C03.R11): the decompression hook is registered only on the non-nil side of a test of the compression section, directly or through a predicate that implies it. R13: the filter object shared by the writer and the reader goroutine of a backend connection carries no mutable scratch state. R3 reads the offsets from a switch or from a constant map table. R14: nothing in the compression filter bounds the number of decompressed bytes (no limiting reader). R11 also: a function that takes an object from a pool and gives it back returns nothing derived from it. R15: no store into the Compression field of a configuration message. R6's value-returning commands include SET (GET option).",
			Assumptions: []string{"no write to a bytes.Buffer happens between its Len() test and the Bytes() that is copied", "Redis syntax reference for value positions embedded in samlint/refdata.go"},
			TrustedBase: []string{"go/ssa", "samlint ebounds.go + zone.go", "samlint etable.go"},
		},
		run: checkC13,
	})
	techniques["C13"] = "static analysis: dominance/once-guard rules, zone-domain length witnesses, constant-table extraction, typestate of pooled writer/buffer"
}

// returnedValues resolves the values a Return yields, looking through defer-spilled result cells.
func returnedValues(ret *ssa.Return) []ssa.Value {
	out := make([]ssa.Value, len(ret.Results))
	for i, r := range ret.Results {
		out[i] = r
		u, ok := r.(*ssa.UnOp)
		if !ok || u.Op != token.MUL {
			continue
		}
		al, ok := u.X.(*ssa.Alloc)
		if !ok {
			continue
		}
		// last store to the cell in this block before the return
		var last ssa.Value
		for _, in := range ret.Block().Instrs {
			if st, ok := in.(*ssa.Store); ok && st.Addr == ssa.Value(al) {
				last = st.Val
			}
			if in == ssa.Instruction(u) {
				break
			}
		}
		if last != nil {
			out[i] = last
		}
	}
	return out
}

func checkC13(c *Ctx) {
	p := c.P
	c.Rule("R1", "re-run idempotence: body mutation reachable from Filter.Do is dominated by a per-request once-guard (flag tested and set)")
	c.Rule("R2", "overwrite only when strictly shorter: every copy into the original value has witness len(src)<=len(dst); result strictly shorter; otherwise original returned untouched")
	c.Rule("R3", "value positions and stride per command equal the Redis syntax reference")
	c.Rule("R4", "banned command set equals the documented list")
	c.Rule("R5", "header layout agreement between writer and reader (magic, algorithm byte, CR LF; cpsHdrLen)")
	c.Rule("R6", "decompress hook registered before/independently of the Enable test; skip set disjoint from value-returning commands")
	c.Rule("R7", "pooled writer closed exactly once on every path; pooled buffer bytes never escape")
	c.Rule("R8", "reply walk is total: the array arm of the reply decompression recurses into every element, in place or with write-back")

	doFn := p.Func(redisPkg, "(*compressFilter).Do")
	compFn := p.Func(redisPkg, "(*compressFilter).compress")
	CompFn := p.Func(redisPkg, "(*compressFilter).Compress")
	decFn := p.Func(redisPkg, "(*compressFilter).decompress")
	if doFn == nil || compFn == nil || CompFn == nil || decFn == nil {
		c.Unresolved("R1", "compressFilter.Do / Compress / compress / decompress")
		return
	}

	// ---------------- R1
	func() {
		// mutators: functions that store into a non-local RespValue or copy into a parameter
		direct := map[*ssa.Function]bool{}
		for _, fn := range p.FuncsIn(redisPkg) {
			if p.isTestFn(fn) {
				continue
			}
			eachInstr(fn, func(_ *ssa.BasicBlock, _ int, in ssa.Instruction) {
				switch x := in.(type) {
				case *ssa.Store:
					if f, base := fieldAddr(x.Addr); f != nil && modType(base.Type(), redisPkg, "RespValue") && !isFreshAlloc(base) {
						direct[fn] = true
					}
					if ia, ok := x.Addr.(*ssa.IndexAddr); ok {
						if sl, ok := ia.X.Type().Underlying().(*types.Slice); ok && modType(sl.Elem(), redisPkg, "RespValue") && !isFreshAlloc(ia.X) {
							if _, isMk := ia.X.(*ssa.MakeSlice); !isMk {
								direct[fn] = true
							}
						}
					}
				case *ssa.Call:
					if isBuiltin(x, "copy") {
						if derives(x.Call.Args[0], func(v ssa.Value) bool { _, isP := v.(*ssa.Parameter); return isP }) {
							direct[fn] = true
						}
					}
				}
			})
		}
		mut := map[*ssa.Function]bool{}
		for f := range direct {
			mut[f] = true
		}
		for changed := true; changed; {
			changed = false
			for _, fn := range p.FuncsIn(redisPkg) {
				if mut[fn] || p.isTestFn(fn) {
					continue
				}
				eachInstr(fn, func(_ *ssa.BasicBlock, _ int, in ssa.Instruction) {
					if call, ok := in.(*ssa.Call); ok {
						if g := calleeFn(call.Common()); g != nil && mut[g] && !mut[fn] {
							mut[fn] = true
							changed = true
						}
					}
				})
			}
		}
		filt := p.Named(redisPkg, "Filter")
		if filt == nil {
			c.Unresolved("R1", "Filter")
			return
		}
		iface := filt.Underlying().(*types.Interface)
		n := 0
		for _, fn := range p.FuncsIn(redisPkg) {
			if p.isTestFn(fn) || fn.Name() != "Do" || fn.Signature.Recv() == nil || !types.Implements(fn.Signature.Recv().Type(), iface) {
				continue
			}
			var reqP *ssa.Parameter
			for _, prm := range fn.Params {
				if isReqType(prm.Type()) {
					reqP = prm
				}
			}
			eachInstr(fn, func(b *ssa.BasicBlock, _ int, in ssa.Instruction) {
				call, ok := in.(*ssa.Call)
				if !ok {
					return
				}
				g := calleeFn(call.Common())
				if g == nil || !mut[g] || g.Signature.Recv() != nil && isReqType(g.Signature.Recv().Type()) {
					return
				}
				// does an argument derive from the request?
				fromReq := false
				for _, a := range call.Call.Args {
					if derives(a, func(v ssa.Value) bool { return v == ssa.Value(reqP) }) {
						fromReq = true
					}
					if cl, ok := a.(*ssa.Call); ok && len(cl.Call.Args) > 0 && cl.Call.Args[0] == ssa.Value(reqP) {
						fromReq = true
					}
				}
				if !fromReq {
					return
				}
				n++
				site := fmt.Sprintf("%s call#%d of body mutator %s", fnKey(fn), n, g.Name())
				// once-guard: an If on a bool field of the request dominating the call by edge, with a store to the same field behind the same edge
				guarded := false
				for _, d := range fn.Blocks {
					iff, ok := d.Instrs[len(d.Instrs)-1].(*ssa.If)
					if !ok {
						continue
					}
					cond := iff.Cond
					if u, ok := cond.(*ssa.UnOp); ok && u.Op == token.NOT {
						cond = u.X
					}
					f, base := loadedField(cond)
					if f == nil || base != ssa.Value(reqP) {
						continue
					}
					for k := 0; k < 2; k++ {
						s := d.Succs[k]
						if len(s.Preds) != 1 || !(s == b || s.Dominates(b)) {
							continue
						}
						// a store to req.f dominated by the same edge
						eachInstr(fn, func(b2 *ssa.BasicBlock, _ int, in2 ssa.Instruction) {
							if st, ok := in2.(*ssa.Store); ok {
								if f2, base2 := fieldAddr(st.Addr); f2 == f && base2 == ssa.Value(reqP) && (b2 == s || s.Dominates(b2)) {
									guarded = true
								}
							}
						})
					}
				}
				if guarded {
					c.OK("R1", site, call.Pos(), "dominated by a per-request flag that is tested and set")
				} else {
					c.Fail("R1", site, call.Pos(), "the request body is rewritten in place on every pass through the filter chain; a request resent after MOVED/ASK passes again, so a value still above the threshold is compressed twice and reads return the inner frame")
				}
			})
		}
		if n == 0 {
			c.Unresolved("R1", "no body-mutating call found in any Filter.Do")
		}
	}()

	// ---------------- R2 + R7 (compress)
	func() {
		var srcP *ssa.Parameter
		for _, prm := range compFn.Params {
			if sl, ok := prm.Type().Underlying().(*types.Slice); ok {
				if b, ok := sl.Elem().Underlying().(*types.Basic); ok && b.Kind() == types.Uint8 {
					srcP = prm
				}
			}
		}
		if srcP == nil {
			c.Undecided("R2", "compress signature", compFn.Pos(), "no []byte parameter")
			return
		}
		bc := newBoundsCtx(p, compFn)
		ncopy := 0
		var copies []*ssa.Call
		eachInstr(compFn, func(_ *ssa.BasicBlock, _ int, in ssa.Instruction) {
			call, ok := in.(*ssa.Call)
			if !ok || !isBuiltin(call, "copy") {
				return
			}
			if !derives(call.Call.Args[0], func(v ssa.Value) bool { return v == ssa.Value(srcP) }) {
				return
			}
			ncopy++
			copies = append(copies, call)
			site := fmt.Sprintf("%s copy#%d into the original value", fnKey(compFn), ncopy)
			z := bc.zoneAt(call.Block())
			ls, ld := bc.lenOf(call.Call.Args[1]), bc.lenOf(call.Call.Args[0])
			z = bc.zoneAt(call.Block())
			if z.entLE(ls, ld) {
				c.OK("R2", site+" not truncated", call.Pos(), fmt.Sprintf("len(source) %s%+d <= len(destination) %s%+d entailed", ls.v, ls.c, ld.v, ld.c))
			} else {
				c.Fail("R2", site+" not truncated", call.Pos(), fmt.Sprintf("no witness that the compressed bytes fit: len(source) %s%+d vs len(destination) %s%+d; copy would silently cut the stream", ls.v, ls.c, ld.v, ld.c))
			}
		})
		nret := 0
		eachInstr(compFn, func(b *ssa.BasicBlock, _ int, in ssa.Instruction) {
			ret, ok := in.(*ssa.Return)
			if !ok || b.Comment == "recover" {
				return
			}
			nret++
			v := returnedValues(ret)[0]
			site := fmt.Sprintf("%s return#%d", fnKey(compFn), nret)
			if v == ssa.Value(srcP) {
				// untouched: no copy may precede this return on any path
				touched := false
				for _, cp := range copies {
					if findPath(posOf(cp), pathQuery{target: func(x ssa.Instruction) bool { return x == in }}) != nil {
						touched = true
					}
				}
				c.Check(!touched, "R2", site+" original untouched", ret.Pos(), "returns the original slice and no copy precedes it", "the original value is returned after it has been partly overwritten")
				return
			}
			sl, ok := v.(*ssa.Slice)
			if !ok || sl.X != ssa.Value(srcP) {
				c.Undecided("R2", site, ret.Pos(), "returns neither the original nor a prefix of it")
				return
			}
			z := bc.zoneAt(b)
			hi := bc.lenOf(sl)
			z = bc.zoneAt(b)
			if z.entLT(hi, bc.lenOf(srcP)) {
				c.OK("R2", site+" strictly shorter", ret.Pos(), "len(result) < len(original) entailed by the dominating size test")
			} else {
				c.Fail("R2", site+" strictly shorter", ret.Pos(), "no witness that the overwritten value is strictly shorter than the original")
			}
		})
		c.Expect("R2", 4)

		// R7: writer typestate
		var w ssa.Value
		eachInstr(compFn, func(_ *ssa.BasicBlock, _ int, in ssa.Instruction) {
			if call, ok := in.(*ssa.Call); ok && calleeFn(call.Common()) != nil && calleeFn(call.Common()).String() == modPath+"/proc/redis/compressor.NewWriter" {
				for _, r := range *call.Referrers() {
					if ex, ok := r.(*ssa.Extract); ok && ex.Index == 0 {
						w = ex
					}
				}
			}
		})
		if w == nil {
			c.Undecided("R7", "writer in "+fnKey(compFn), compFn.Pos(), "no compressor.NewWriter call")
		} else {
			isClose := func(in ssa.Instruction) bool {
				cc := callOf(in)
				return cc != nil && cc.IsInvoke() && cc.Value == w && cc.Method.Name() == "Close"
			}
			isUse := func(in ssa.Instruction) bool {
				cc := callOf(in)
				return cc != nil && cc.IsInvoke() && cc.Value == w && cc.Method.Name() != "Close"
			}
			// the success branch of NewWriter
			var okBlock *ssa.BasicBlock
			for _, b := range compFn.Blocks {
				if iff, ok := b.Instrs[len(b.Instrs)-1].(*ssa.If); ok {
					if bo, ok := iff.Cond.(*ssa.BinOp); ok && bo.Op == token.NEQ && isNilConst(bo.Y) {
						if ex, ok := bo.X.(*ssa.Extract); ok && ex.Tuple == w.(*ssa.Extract).Tuple && ex.Index == 1 {
							okBlock = b.Succs[1]
						}
					}
				}
			}
			if okBlock == nil {
				c.Undecided("R7", "writer error test in "+fnKey(compFn), compFn.Pos(), "cannot find the err != nil test after NewWriter")
			} else {
				path := findPath(ipos{okBlock, -1}, pathQuery{target: isReturn, avoid: isClose})
				c.Check(path == nil, "R7", "writer closed on every path", w.Pos(), "every path from a successful NewWriter to return crosses w.Close()", "a path returns without closing the pooled writer (leak; the stream is never flushed): "+p.pathString(path))
				// no second close, no use after close
				bad := ""
				eachInstr(compFn, func(_ *ssa.BasicBlock, _ int, in ssa.Instruction) {
					if !isClose(in) {
						return
					}
					if pth := findPath(posOf(in), pathQuery{target: func(x ssa.Instruction) bool { return isClose(x) || isUse(x) }}); pth != nil {
						bad = p.pathString(pth)
					}
				})
				c.Check(bad == "", "R7", "writer not used or closed again after Close", w.Pos(), "no Close/Write reachable after a Close", "the pooled writer is written or closed again after Close (it is already back in the pool): "+bad)
			}
		}
		// pooled buffer bytes never escape (compress + decompress)
		for _, fn := range []*ssa.Function{compFn, decFn} {
			nb := 0
			eachInstr(fn, func(_ *ssa.BasicBlock, _ int, in ssa.Instruction) {
				call, ok := in.(*ssa.Call)
				if !ok || !isCallTo(call, "(*bytes.Buffer).Bytes") {
					return
				}
				// receiver is the embedded Buffer of a `buffer` obtained from newBuffer()
				if !derives(call.Call.Args[0], func(v ssa.Value) bool {
					cl, ok := v.(*ssa.Call)
					return ok && calleeFn(cl.Common()) != nil && calleeFn(cl.Common()).Name() == "newBuffer"
				}) {
					return
				}
				nb++
				site := fmt.Sprintf("%s pooled bytes#%d", fnKey(fn), nb)
				esc := ""
				for _, r := range *call.Referrers() {
					switch y := r.(type) {
					case *ssa.Call:
						if isBuiltin(y, "copy") && y.Call.Args[1] == ssa.Value(call) {
							continue
						}
						if isBuiltin(y, "len") {
							continue
						}
						esc = "passed to " + calleeName(y.Common())
					case *ssa.DebugRef:
					default:
						esc = fmt.Sprintf("flows into %T", r)
					}
				}
				c.Check(esc == "", "R7", site+" do not escape", call.Pos(), "used only as the source of copy()", "a slice of a pooled buffer's bytes escapes ("+esc+"): the buffer is reset and reused by the next request while the value is still referenced")
			})
		}
		c.Expect("R7", 4)
	}()

	// ---------------- R3
	func() {
		var cmdP *ssa.Parameter
		for _, prm := range CompFn.Params {
			if b, ok := prm.Type().Underlying().(*types.Basic); ok && b.Kind() == types.String {
				cmdP = prm
			}
		}
		if cmdP == nil {
			c.Undecided("R3", "Compress signature", CompFn.Pos(), "no command-name parameter")
			return
		}
		// loop
		hs := loopHeaders(CompFn)
		if len(hs) != 1 {
			c.Undecided("R3", "Compress loop", CompFn.Pos(), fmt.Sprintf("expected one loop, found %d", len(hs)))
			return
		}
		h := hs[0]
		var ind *ssa.Phi
		var step int64
		var initV ssa.Value
		for _, in := range h.Instrs {
			ph, ok := in.(*ssa.Phi)
			if !ok {
				continue
			}
			for k, pred := range h.Preds {
				if h.Dominates(pred) {
					if bo, ok := ph.Edges[k].(*ssa.BinOp); ok && bo.Op == token.ADD && bo.X == ssa.Value(ph) {
						if s, isC := constInt(bo.Y); isC {
							ind, step = ph, s
							for k2, pred2 := range h.Preds {
								if !h.Dominates(pred2) {
									initV = ph.Edges[k2]
								}
							}
						}
					}
				}
			}
		}
		if ind == nil {
			c.Undecided("R3", "Compress loop", h.Instrs[0].Pos(), "no induction variable")
			return
		}
		_ = initV
		c.Check(step == 2, "R3", "stride", ind.Pos(), "values are every second argument (stride 2)", fmt.Sprintf("stride is %d; field/value pairs alternate, so every second argument is a value", step))
		// offsets per command: wherever (Compress or a helper it calls) the command name is compared with constants,
		// the small integer constant selected on that branch (phi edge or returned value)
		got := map[string]int64{}
		for _, sf := range append([]*ssa.Function{CompFn}, staticCalleesDeep(CompFn, 2)...) {
			eachInstr(sf, func(_ *ssa.BasicBlock, _ int, in ssa.Instruction) {
				bo, ok := in.(*ssa.BinOp)
				if !ok || bo.Op != token.EQL {
					return
				}
				w, isW := constString(bo.Y)
				if !isW {
					return
				}
				if b, isB := bo.X.Type().Underlying().(*types.Basic); !isB || b.Kind() != types.String {
					return
				}
				for _, r := range *bo.Referrers() {
					iff, ok := r.(*ssa.If)
					if !ok {
						continue
					}
					T := iff.Block().Succs[0]
					eachInstr(sf, func(b2 *ssa.BasicBlock, _ int, x ssa.Instruction) {
						switch y := x.(type) {
						case *ssa.Phi:
							if intBits(y.Type()) == 0 {
								return
							}
							for k, pred := range b2.Preds {
								if pred == T || (T.Dominates(pred) && len(T.Preds) >= 1 && onlyVia(T, pred)) {
									if v, isC := constInt(y.Edges[k]); isC {
										got[w] = v
									}
								}
							}
						case *ssa.Return:
							if (b2 == T || T.Dominates(b2)) && len(y.Results) >= 1 {
								if v, isC := constInt(returnedValues(y)[0]); isC && intBits(returnedValues(y)[0].Type()) > 0 {
									got[w] = v
								}
							}
						}
					})
				}
			})
		}
		// ... or read from a constant package-level table keyed by the command name
		if len(got) == 0 {
			for _, sf := range append([]*ssa.Function{CompFn}, staticCalleesDeep(CompFn, 2)...) {
				eachInstr(sf, func(_ *ssa.BasicBlock, _ int, in ssa.Instruction) {
					lk, ok := in.(*ssa.Lookup)
					if !ok {
						return
					}
					ld, ok := lk.X.(*ssa.UnOp)
					if !ok {
						return
					}
					g, ok := ld.X.(*ssa.Global)
					if !ok {
						return
					}
					if tbl, ok := p.globalIntTable(g); ok {
						for k, v := range tbl {
							got[k] = v
						}
					}
				})
			}
		}
		if len(got) == 0 {
			c.Undecided("R3", "offset table", ind.Pos(), "the first value position is not selected by comparing the command name with constants")
			return
		}
		var names []string
		for n := range cpsValuePos {
			names = append(names, n)
		}
		for n := range got {
			if _, ok := cpsValuePos[n]; !ok {
				names = append(names, n)
			}
		}
		sort.Strings(names)
		for _, n := range names {
			want, inRef := cpsValuePos[n]
			g, inGot := got[n]
			site := "value position of " + n
			switch {
			case !inRef:
				c.Fail("R3", site, CompFn.Pos(), fmt.Sprintf("command %s is compressed at offset %d but is not a supported string/hash write in the reference", n, g))
			case !inGot:
				c.Fail("R3", site, CompFn.Pos(), "command "+n+" is documented as supported but has no value position")
			case int64(want) != g:
				c.Fail("R3", site, CompFn.Pos(), fmt.Sprintf("first value of %s is argument %d in Redis syntax, the filter uses %d (it would compress a key, field or expiry)", n, want, g))
			default:
				c.OK("R3", site, CompFn.Pos(), fmt.Sprintf("offset %d", g))
			}
		}
		// loop visits exactly resp.Array[i] for i = offset, offset+2, ... < len(resp.Array)
		cmpOK := false
		if iff, ok := h.Instrs[len(h.Instrs)-1].(*ssa.If); ok {
			if bo, ok := iff.Cond.(*ssa.BinOp); ok && bo.Op == token.LSS && bo.X == ssa.Value(ind) {
				if call, ok := bo.Y.(*ssa.Call); ok && isBuiltin(call, "len") {
					cmpOK = true
				}
			}
		}
		c.Check(cmpOK, "R3", "loop bound", h.Instrs[0].Pos(), "i < len(Array)", "the value loop is not bounded by the number of arguments")
		c.Expect("R3", 9)
	}()

	// ---------------- R4
	func() {
		g := p.Global(redisPkg, "bannedCmdsInCps")
		if g == nil {
			c.Unresolved("R4", "bannedCmdsInCps")
			return
		}
		t := p.mapTableOf(g, nil)
		keys, ok, why := p.mapKeys(t)
		if !ok {
			c.Undecided("R4", "banned set", g.Pos(), why)
			return
		}
		want := append([]string{}, cpsBanned...)
		sort.Strings(want)
		c.Check(strings.Join(keys, ",") == strings.Join(want, ","), "R4", "banned set", g.Pos(), "equals the documented list "+strings.Join(want, ","),
			"banned set is {"+strings.Join(keys, ",")+"}, documented {"+strings.Join(want, ",")+"}: a command that reads or writes part of a (possibly compressed) value would reach the backend")
		c.Check(len(t.Deletes) == 0 && len(t.Escapes) == 0, "R4", "banned set is fixed", g.Pos(), "written only by its initialiser", "the banned set is modified or handed out at run time")
		// lookup in Do dominates the rejection
		okLookup := false
		for _, l := range t.Lookups {
			if l.Parent() == doFn && l.CommaOk {
				okLookup = true
			}
		}
		for _, l := range t.LookupCalls {
			if l.Parent() == doFn {
				okLookup = true
			}
		}
		c.Check(okLookup, "R4", "filter consults the banned set", doFn.Pos(), "comma-ok lookup in Do", "the filter no longer consults the banned set")
	}()

	// ---------------- R5
	checkCpsHeader(c, decFn)

	// ---------------- R6
	func() {
		var reg *ssa.Call
		eachInstr(doFn, func(_ *ssa.BasicBlock, _ int, in ssa.Instruction) {
			if call, ok := in.(*ssa.Call); ok && isMethodCall(call, modPath+"/"+redisPkg, "simpleRequest", "RegisterHook") {
				reg = call
			}
		})
		if reg == nil {
			c.Fail("R6", "decompress hook registered", doFn.Pos(), "the filter never registers the decompress hook")
			return
		}
		// the hook calls Decompress on the response
		hookOK := false
		if hf := funcValue(reg.Call.Args[1]); hf != nil {
			// a closure, a bound method value (synthetic wrapper) or a plain function: look two levels deep
			for _, h := range append([]*ssa.Function{hf}, staticCalleesDeep(hf, 2)...) {
				if h.Name() == "Decompress" {
					hookOK = true
				}
				eachInstr(h, func(_ *ssa.BasicBlock, _ int, in ssa.Instruction) {
					if cc := callOf(in); cc != nil && calleeFn(cc) != nil && calleeFn(cc).Name() == "Decompress" {
						hookOK = true
					}
				})
			}
		}
		c.Check(hookOK, "R6", "hook decompresses the reply", reg.Pos(), "closure calls Decompress", "the registered hook does not decompress the reply")
		skipG := p.Global(redisPkg, "wkSkipCheckCmdsInDecps")
		bad := ""
		for _, d := range doFn.Blocks {
			iff, ok := d.Instrs[len(d.Instrs)-1].(*ssa.If)
			if !ok {
				continue
			}
			edge := -1
			for k := 0; k < 2; k++ {
				s := d.Succs[k]
				if len(s.Preds) == 1 && (s == reg.Block() || s.Dominates(reg.Block())) {
					edge = k
				}
			}
			if edge < 0 {
				continue
			}
			// allowed: nil tests and the comma-ok of the skip-set lookup
			okc := false
			switch x := iff.Cond.(type) {
			case *ssa.BinOp:
				if (x.Op == token.EQL || x.Op == token.NEQ) && (isNilConst(x.Y) || isNilConst(x.X)) {
					okc = true
				}
			case *ssa.Extract:
				if lk, ok := x.Tuple.(*ssa.Lookup); ok && x.Index == 1 {
					if u, ok := lk.X.(*ssa.UnOp); ok && skipG != nil && u.X == ssa.Value(skipG) {
						okc = edge == 1 // not in the skip set
					}
				}
			case *ssa.Call:
				// a helper that only performs nil tests on the configuration (no Enable / threshold read)
				if g := calleeFn(x.Common()); g != nil && isModFn(g) && g.Blocks != nil {
					pure := true
					for _, h := range append([]*ssa.Function{g}, staticCalleesDeep(g, 1)...) {
						if !isModFn(h) {
							continue
						}
						eachInstr(h, func(_ *ssa.BasicBlock, _ int, y ssa.Instruction) {
							if bo, ok := y.(*ssa.BinOp); ok {
								if !((bo.Op == token.EQL || bo.Op == token.NEQ) && (isNilConst(bo.Y) || isNilConst(bo.X))) {
									pure = false
								}
							}
							if v, isV := y.(ssa.Value); isV {
								if f, _ := fieldAddr(v); f != nil && (f.Name() == "Enable" || f.Name() == "Threshold") {
									pure = false
								}
							}
						})
					}
					okc = pure
				}
			}
			if !okc {
				bad = p.Pos(iff.Cond.Pos()) + ": " + iff.Cond.String()
			}
		}
		if bad != "" {
			c.Fail("R6", "hook registration condition", reg.Pos(), "the decompress hook is registered only under an extra condition ("+bad+"): replies carrying a compressed value are handed to clients as the raw header and stream (e.g. after compression is switched off, or for a value-returning write command)")
		} else {
			c.OK("R6", "hook registration condition", reg.Pos(), "only nil-config tests and the skip set guard the registration (in particular not Enable)")
		}
		if skipG != nil {
			keys, ok, why := p.mapKeys(p.mapTableOf(skipG, nil))
			if !ok {
				c.Undecided("R6", "skip set", skipG.Pos(), why)
			} else {
				var inter []string
				for _, k := range keys {
					for _, v := range valueReturning {
						if k == v {
							inter = append(inter, k)
						}
					}
				}
				c.Check(len(inter) == 0, "R6", "skip set vs value-returning commands", skipG.Pos(), fmt.Sprintf("%d skip entries, none returns a string/hash value", len(keys)), "commands "+strings.Join(inter, ",")+" return stored string/hash values but skip the decompress hook")
			}
		}
	}()
	c.Expect("R1", 1)
	c.Expect("R4", 3)
	c.Expect("R5", 5)
	c.Expect("R6", 3)
	checkReplyWalk(c, "R8")
	c.Rule("R9", "the compression options are read from the live configuration holder on every request (shared with C08.R9)")
	checkLiveConfig(c, "R9")
	c.Rule("R10", "the once-only mark travels with the body: no request of the flagged type is built around the body of another one (the new object would start with a clear flag and the shared body be compressed again)")
	checkBodyNotShared(c, "R10")
	c.Rule("R11", "compressed and decompressed values are copied out of the pooled work buffers before those are released (shared with C19.R11)")
	checkPooledBytesEscape(c, "R11")
	c.Rule("R12", "no rewriting without a compression section: the decompression hook is registered only on the non-nil side of a test of the compression configuration")
	checkDecompressOnlyWhenConfigured(c, "R12")
	c.Rule("R15", "the compression section reaches the filter as configured: no code of the proxy clears or replaces the Compression field of a configuration (a section with enable=false still means: decompress what was stored)")
	checkCompressionSectionNotRewritten(c, "R15")
	c.Rule("R14", "the whole value is read back: nothing in the compression filter bounds the number of decompressed bytes")
	checkDecompressionReadsWholeStream(c, "R14")
	c.Rule("R13", "the filter object, shared by the writer (compress) and the reader goroutine (decompress) of a backend connection, carries no mutable scratch state")
	checkFilterHasNoScratchState(c, "R13")
}

// checkCpsHeader: writer builds magic ‖ alg ‖ CRLF; reader tests/strips the same offsets.
func checkCpsHeader(c *Ctx, decFn *ssa.Function) {
	p := c.P
	pk := p.TPkg(redisPkg)
	magic, hdrLen := "", int64(-1)
	if o, ok := pk.Types.Scope().Lookup("cpsMagicNumber").(*types.Const); ok {
		magic = constant.StringVal(o.Val())
	}
	if o, ok := pk.Types.Scope().Lookup("cpsHdrLen").(*types.Const); ok {
		hdrLen, _ = constant.Int64Val(o.Val())
	}
	if magic == "" || hdrLen < 0 {
		c.Unresolved("R5", "cpsMagicNumber / cpsHdrLen")
		return
	}
	crlf := p.Global(redisPkg, "CRLF")
	crlfLen := int64(-1)
	if crlf != nil {
		if el, ok, _ := p.globalElems(crlf, 0); ok {
			crlfLen = int64(len(el))
			okv := len(el) == 2
			if okv {
				a, _ := constInt(el[0])
				b, _ := constInt(el[1])
				okv = a == '\r' && b == '\n'
			}
			c.Check(okv, "R5", "CRLF constant", crlf.Pos(), "CRLF = {CR, LF}", "CRLF is not {'\\r','\\n'}")
		}
	}
	c.Check(hdrLen == int64(len(magic))+1+crlfLen, "R5", "cpsHdrLen", token.NoPos, fmt.Sprintf("cpsHdrLen=%d = len(magic)+1+len(CRLF)", hdrLen), fmt.Sprintf("cpsHdrLen=%d but the header that is written has %d+1+%d bytes", hdrLen, len(magic), crlfLen))
	// writer: in the package initialiser, sequence WriteString(magic) < WriteByte(alg) < Write(CRLF) < MapUpdate(cpsHdrs)
	hdrs := p.Global(redisPkg, "cpsHdrs")
	if hdrs == nil {
		c.Unresolved("R5", "cpsHdrs")
		return
	}
	t := p.mapTableOf(hdrs, nil)
	if len(t.Updates) != 1 {
		c.Undecided("R5", "header writer", hdrs.Pos(), fmt.Sprintf("%d stores into cpsHdrs", len(t.Updates)))
		return
	}
	up := t.Updates[0]
	fn := up.Parent()
	// the header may be assembled by a helper: cpsHdrs[alg] = build(alg)
	wf, algKey := fn, stripConv(up.Key)
	viaHelper := false
	if hc, ok := stripConv(up.Value).(*ssa.Call); ok {
		if g := calleeFn(hc.Common()); g != nil && isModFn(g) && g.Blocks != nil && len(g.Params) == 1 && len(hc.Call.Args) == 1 && sameValueOrLoad(stripConv(hc.Call.Args[0]), stripConv(up.Key)) {
			wf, algKey, viaHelper = g, ssa.Value(g.Params[0]), true
		}
	}
	var ws, wb, wc ssa.Instruction
	eachInstr(wf, func(_ *ssa.BasicBlock, _ int, in ssa.Instruction) {
		call, ok := in.(*ssa.Call)
		if !ok || (!viaHelper && in.Block() != up.Block()) {
			return
		}
		switch {
		case isCallTo(call, "(*bytes.Buffer).WriteString"):
			if s, ok := constString(call.Call.Args[1]); ok && s == magic {
				ws = in
			}
		case isCallTo(call, "(*bytes.Buffer).WriteByte"):
			// byte(algorithm) where algorithm is the map key
			if stripConv(call.Call.Args[1]) == algKey {
				wb = in
			}
		case isCallTo(call, "(*bytes.Buffer).Write"):
			if u, ok := call.Call.Args[1].(*ssa.UnOp); ok && u.X == ssa.Value(crlf) {
				wc = in
			}
		}
	})
	okW := ws != nil && wb != nil && wc != nil && instrDominates(ws, wb) && instrDominates(wb, wc) && (viaHelper || instrDominates(wc, up))
	if okW {
		// nothing else written to the buffer
		cnt := 0
		count := func(in ssa.Instruction) {
			if call, ok := in.(*ssa.Call); ok {
				if g := calleeFn(call.Common()); g != nil && strings.HasPrefix(g.String(), "(*bytes.Buffer).Write") {
					cnt++
				}
			}
		}
		if viaHelper {
			eachInstr(wf, func(_ *ssa.BasicBlock, _ int, in ssa.Instruction) { count(in) })
		} else {
			for _, in := range up.Block().Instrs {
				count(in)
			}
		}
		okW = cnt == 3
	}
	c.Check(okW, "R5", "header writer layout", up.Pos(), "magic, byte(algorithm), CRLF in this order and nothing else", "the header that is written is not magic ‖ algorithm byte ‖ CR LF")
	// reader
	var guardOK, magicOK, algOK, stripOK bool
	// the reader and the helpers it hands its source parameter to (the header checks may live in a helper)
	readerFns := []*ssa.Function{decFn}
	eachInstr(decFn, func(_ *ssa.BasicBlock, _ int, in ssa.Instruction) {
		if call, ok := in.(*ssa.Call); ok {
			if g := calleeFn(call.Common()); g != nil && isModFn(g) && g.Blocks != nil {
				for _, a := range call.Call.Args {
					if _, isP := a.(*ssa.Parameter); isP {
						if _, isSl := a.Type().Underlying().(*types.Slice); isSl {
							readerFns = append(readerFns, g)
						}
					}
				}
			}
		}
	})
	for _, rf := range readerFns {
		eachInstr(rf, func(_ *ssa.BasicBlock, _ int, in ssa.Instruction) {
			switch x := in.(type) {
			case *ssa.BinOp:
				if x.Op == token.LSS {
					if call, ok := x.X.(*ssa.Call); ok && isBuiltin(call, "len") {
						if v, isC := constInt(x.Y); isC && v == hdrLen {
							guardOK = true
						}
					}
				}
			case *ssa.Slice:
				if _, isP := x.X.(*ssa.Parameter); !isP {
					return
				}
				if x.Low == nil && x.High != nil {
					if v, isC := constInt(x.High); isC && v == int64(len(magic)) {
						magicOK = true
					}
				}
				if x.Low != nil && x.High == nil {
					if v, isC := constInt(x.Low); isC && v == hdrLen {
						stripOK = true
					} else if isC {
						stripOK = false
						c.Fail("R5", "reader strips header", x.Pos(), fmt.Sprintf("reader strips %d bytes, the header has %d", v, hdrLen))
					}
				}
			case *ssa.IndexAddr:
				if _, isP := x.X.(*ssa.Parameter); isP {
					if v, isC := constInt(x.Index); isC && v == int64(len(magic)) {
						algOK = true
					}
				}
			}
		})
	}
	c.Check(guardOK, "R5", "reader length guard", decFn.Pos(), "len(src) < cpsHdrLen rejects", "the reader does not reject values shorter than the header")
	c.Check(magicOK, "R5", "reader tests magic at [0:len(magic)]", decFn.Pos(), "offsets agree", "the reader does not compare the first len(magic) bytes with the magic number")
	c.Check(algOK, "R5", "reader takes algorithm at [len(magic)]", decFn.Pos(), "offset agrees", "the reader does not take the algorithm byte from offset len(magic)")
	c.Check(stripOK, "R5", "reader strips exactly cpsHdrLen", decFn.Pos(), "src[cpsHdrLen:]", "the reader does not strip exactly the header")
}

// onlyVia: pred is reached from T without leaving the region T dominates (used to map switch arms to phi edges).
func onlyVia(T, pred *ssa.BasicBlock) bool { return T.Dominates(pred) }

// checkReplyWalk (C13.R8): a reply can nest values at any depth (HSCAN: [cursor, [field, value, ...]]; EXEC; nested
// arrays). The reply decompression must reach every level: its array arm loops over the elements and, for each
// element, calls a function that leads back to the decompression function itself (recursion), on the element in place
// or on a copy that is stored back into the array.
func checkReplyWalk(c *Ctx, rule string) {
	p := c.P
	D := p.Func(redisPkg, "(*compressFilter).Decompress")
	if D == nil {
		c.Unresolved(rule, "(*compressFilter).Decompress")
		return
	}
	arrF := p.Field(redisPkg, "RespValue", "Array")
	// functions from which D is reachable again (the recursion)
	recursive := func(g *ssa.Function) bool {
		if g == D {
			return true
		}
		return p.reachable([]*ssa.Function{g}, func(h *ssa.Function) bool {
			return h.Pkg == nil || h.Pkg.Pkg.Path() != modPath+"/"+redisPkg
		})[D]
	}
	// loops over resp.Array inside D (or helpers it calls without recursion): IndexAddr on a load of the Array field
	found, okRec, okBack := false, false, true
	var at token.Pos = D.Pos()
	for _, fn := range append([]*ssa.Function{D}, staticCalleesDeep(D, 2)...) {
		if fn.Pkg == nil || fn.Pkg.Pkg.Path() != modPath+"/"+redisPkg {
			continue
		}
		eachInstr(fn, func(_ *ssa.BasicBlock, _ int, in ssa.Instruction) {
			call, ok := in.(*ssa.Call)
			if !ok {
				return
			}
			g := calleeFn(call.Common())
			if g == nil || len(call.Call.Args) == 0 {
				return
			}
			// argument: address of an array element, or of a copy of one
			var elemArg ssa.Value
			for _, a := range call.Call.Args {
				if modType(a.Type(), redisPkg, "RespValue") || (func() bool {
					pt, ok := a.Type().Underlying().(*types.Pointer)
					return ok && modType(pt.Elem(), redisPkg, "RespValue")
				})() {
					if derives(a, func(v ssa.Value) bool {
						if ia, ok := v.(*ssa.IndexAddr); ok {
							f, _ := loadedField(ia.X)
							return f == arrF
						}
						return false
					}) {
						elemArg = a
					}
					// a copy: Alloc into which an element was stored
					if al, isAl := a.(*ssa.Alloc); isAl {
						for _, r := range *al.Referrers() {
							if st, isSt := r.(*ssa.Store); isSt && st.Addr == ssa.Value(al) {
								if derives(st.Val, func(v ssa.Value) bool {
									if ia, ok := v.(*ssa.IndexAddr); ok {
										f, _ := loadedField(ia.X)
										return f == arrF
									}
									if nx, ok := v.(*ssa.Next); ok {
										_ = nx
										return true
									}
									return false
								}) {
									elemArg = a
								}
							}
						}
					}
				}
			}
			if elemArg == nil {
				return
			}
			found = true
			at = call.Pos()
			if recursive(g) {
				okRec = true
			}
			// copy form: the copy must be stored back into the array after the call
			if al, isAl := elemArg.(*ssa.Alloc); isAl {
				back := false
				for _, r := range *al.Referrers() {
					if ld, isLd := r.(*ssa.UnOp); isLd && ld.Op == token.MUL {
						for _, r2 := range *ld.Referrers() {
							if st, isSt := r2.(*ssa.Store); isSt {
								if ia, isIA := st.Addr.(*ssa.IndexAddr); isIA {
									if f, _ := loadedField(ia.X); f == arrF && instrDominates(call, st) {
										back = true
									}
								}
							}
						}
					}
				}
				if !back {
					okBack = false
				}
			}
		})
	}
	if !found {
		c.Fail(rule, "array arm of the reply decompression", at, "the reply decompression never applies anything to the elements of an array reply: MGET / HGETALL / LRANGE values come back compressed")
		return
	}
	c.Check(okRec, rule, "array arm recurses", at, "each element is handed to a function that leads back to the reply decompression", "the elements of an array reply are processed by a function that does not descend further: values nested one level deeper (HSCAN, nested multi-bulk) are returned to the client still compressed")
	c.Check(okBack, rule, "decompressed copy stored back", at, "in place, or copy stored back into the array", "an element is decompressed on a copy that is not stored back into the array: the client receives the compressed bytes")
}

// sameValueOrLoad: identical SSA values, or two loads of the same element / field address expression.
func sameValueOrLoad(a, b ssa.Value) bool {
	if a == b {
		return true
	}
	la, ok1 := a.(*ssa.UnOp)
	lb, ok2 := b.(*ssa.UnOp)
	if !ok1 || !ok2 || la.Op != token.MUL || lb.Op != token.MUL {
		return false
	}
	switch xa := la.X.(type) {
	case *ssa.IndexAddr:
		xb, ok := lb.X.(*ssa.IndexAddr)
		return ok && xa.X == xb.X && xa.Index == xb.Index
	case *ssa.FieldAddr:
		xb, ok := lb.X.(*ssa.FieldAddr)
		return ok && xa.X == xb.X && xa.Field == xb.Field
	}
	return la.X == lb.X
}

// checkBodyNotShared (C13.R10): the once-only guard of the compression filter is a flag on the request object, while
// what it protects - the body, compressed in place - can be shared: a second request object built around the body of
// another one starts with a clear flag, and the next pass through the filter compresses the already compressed values
// again (reads then return the inner frame). No request of the flagged type may be constructed from the body of
// another request of that type, unless the flag is copied along.
func checkBodyNotShared(c *Ctx, rule string) {
	p := c.P
	reqT := p.Named(redisPkg, "simpleRequest")
	if reqT == nil {
		c.Unresolved(rule, "simpleRequest")
		return
	}
	st, _ := reqT.Underlying().(*types.Struct)
	var bodyF *types.Var
	var flags []*types.Var
	for i := 0; st != nil && i < st.NumFields(); i++ {
		f := st.Field(i)
		if pt, ok := f.Type().(*types.Pointer); ok && modType(pt.Elem(), redisPkg, "RespValue") && f.Name() != "resp" {
			if bodyF == nil {
				bodyF = f
			}
		}
		if b, ok := f.Type().Underlying().(*types.Basic); ok && b.Kind() == types.Bool {
			flags = append(flags, f)
		}
	}
	// the body field by role: the *RespValue field that the constructor fills from its parameter
	var ctors []*ssa.Function
	ctorParam := map[*ssa.Function]int{}
	for _, fn := range p.FuncsIn(redisPkg) {
		if p.isTestFn(fn) || fn.Signature.Results().Len() == 0 {
			continue
		}
		if rt, ok := fn.Signature.Results().At(0).Type().(*types.Pointer); !ok || rt.Elem() != types.Type(reqT) {
			continue
		}
		eachInstr(fn, func(_ *ssa.BasicBlock, _ int, in ssa.Instruction) {
			s, ok := in.(*ssa.Store)
			if !ok {
				return
			}
			f, base := fieldAddr(s.Addr)
			if f == nil || !isFreshAlloc(base) {
				return
			}
			if pt, ok := f.Type().(*types.Pointer); !ok || !modType(pt.Elem(), redisPkg, "RespValue") {
				return
			}
			if prm, ok := s.Val.(*ssa.Parameter); ok {
				bodyF = f
				ctors = append(ctors, fn)
				ctorParam[fn] = paramIndex(fn, prm)
			}
		})
	}
	if bodyF == nil || len(ctors) == 0 || len(flags) == 0 {
		c.Unresolved(rule, "simpleRequest body field / constructor / once flag")
		return
	}
	isBodyOfReq := func(v ssa.Value) (bool, ssa.Value) {
		v = stripConv(v)
		if f, base := loadedField(v); f == bodyF {
			return true, base
		}
		if call, ok := v.(*ssa.Call); ok {
			if g := calleeFn(call.Common()); g != nil && trivialGetterField(g) == bodyF && len(call.Call.Args) > 0 {
				return true, call.Call.Args[0]
			}
		}
		return false, nil
	}
	n := 0
	for _, fn := range p.FuncsIn(redisPkg) {
		if p.isTestFn(fn) {
			continue
		}
		eachInstr(fn, func(_ *ssa.BasicBlock, _ int, in ssa.Instruction) {
			call, ok := in.(*ssa.Call)
			if !ok {
				return
			}
			g := calleeFn(call.Common())
			idx, isCtor := ctorParam[g]
			if g == nil || !isCtor || idx >= len(call.Call.Args) {
				return
			}
			n++
			shared, src := isBodyOfReq(call.Call.Args[idx])
			site := fmt.Sprintf("%s construction#%d does not share a flagged body", fnKey(fn), n)
			if !shared {
				c.OK(rule, site, call.Pos(), "the body is not the body of another request of the flagged type")
				return
			}
			// the flag copied along: new.flag = src.flag for every bool flag that a filter tests
			copied := 0
			eachInstr(fn, func(_ *ssa.BasicBlock, _ int, x ssa.Instruction) {
				s, ok := x.(*ssa.Store)
				if !ok {
					return
				}
				f, base := fieldAddr(s.Addr)
				if f == nil || base != ssa.Value(call) {
					return
				}
				if f2, b2 := loadedField(s.Val); f2 == f && b2 == src {
					copied++
				}
			})
			if copied >= len(flags) {
				c.OK(rule, site, call.Pos(), "the body is shared and the once-only flags are copied along")
			} else {
				c.Fail(rule, site, call.Pos(), "a second request object is built around the body of another request: the in-place compression of the body is guarded by a flag on the request object, the new object starts with the flag clear, so a redirected write whose compressed value is still above the threshold is compressed a second time and reads return the inner frame")
			}
		})
	}
	if n == 0 {
		c.Unresolved(rule, "no construction of a simpleRequest")
	}
}

// checkDecompressOnlyWhenConfigured (C13.R12, C03.R11): replies are rewritten by the decompression hook only for a
// service that has a compression section. Without one, a value that merely starts with the magic header and a valid
// stream must be relayed byte for byte. The registration of the hook is dominated by the non-nil side of a test of the
// compression configuration.
func checkDecompressOnlyWhenConfigured(c *Ctx, rule string) {
	p := c.P
	doFn := p.Func(redisPkg, "(*compressFilter).Do")
	dec := p.Func(redisPkg, "(*compressFilter).Decompress")
	if doFn == nil || dec == nil {
		c.Unresolved(rule, "compressFilter.Do / Decompress")
		return
	}
	n := 0
	for _, fn := range append([]*ssa.Function{doFn}, staticCalleesDeep(doFn, 1)...) {
		if fn.Blocks == nil || !isModFn(fn) {
			continue
		}
		eachInstr(fn, func(b *ssa.BasicBlock, _ int, in ssa.Instruction) {
			cc := callOf(in)
			if cc == nil || calleeFn(cc) == nil || calleeFn(cc).Name() != "RegisterHook" || len(cc.Args) < 2 {
				return
			}
			h := funcValue(cc.Args[1])
			if h == nil {
				return
			}
			callsDec := false
			for _, hf := range append([]*ssa.Function{h}, staticCalleesDeep(h, 2)...) {
				if hf == dec {
					callsDec = true
				}
			}
			if !callsDec {
				return
			}
			n++
			site := fmt.Sprintf("%s decompression hook#%d registered only with a compression section", fnKey(fn), n)
			guarded := false
			for _, d := range fn.Blocks {
				iff, ok := d.Instrs[len(d.Instrs)-1].(*ssa.If)
				if !ok {
					continue
				}
				bo, ok := iff.Cond.(*ssa.BinOp)
				if !ok || (bo.Op != token.EQL && bo.Op != token.NEQ) || !isNilConst(bo.Y) {
					continue
				}
				_ = 0
				isCfg := derives(bo.X, func(v ssa.Value) bool {
					if call, ok := v.(*ssa.Call); ok {
						if g := calleeFn(call.Common()); g != nil && (g.Name() == "GetCompression") {
							return true
						}
					}
					if f, _ := loadedField(v); f != nil && f.Name() == "Compression" {
						return true
					}
					return false
				})
				if !isCfg {
					continue
				}
				k := 1
				if bo.Op == token.NEQ {
					k = 0
				}
				if sb := d.Succs[k]; len(sb.Preds) == 1 && (sb == b || sb.Dominates(b)) {
					guarded = true
				}
			}
			// the test may be a predicate method: `if !f.hasCompressionConfig() { return }`
			if !guarded {
				for _, d := range fn.Blocks {
					iff, ok := d.Instrs[len(d.Instrs)-1].(*ssa.If)
					if !ok {
						continue
					}
					cond, k := iff.Cond, 0
					if u, ok := cond.(*ssa.UnOp); ok && u.Op == token.NOT {
						cond, k = u.X, 1
					}
					call, ok := cond.(*ssa.Call)
					if !ok {
						continue
					}
					g := calleeFn(call.Common())
					if g == nil || !isModFn(g) || g.Blocks == nil || !predicateImpliesCompressionCfg(g) {
						continue
					}
					if sb := d.Succs[k]; len(sb.Preds) == 1 && (sb == b || sb.Dominates(b)) {
						guarded = true
					}
				}
			}
			c.Check(guarded, rule, site, in.Pos(), "dominated by the non-nil side of a test of the compression configuration", "the decompression hook is registered although the service has no compression section: every reply that starts with the magic header and a well-formed stream is rewritten - a client that stored such bytes reads something else back, on a proxy that was never asked to compress")
		})
	}
	if n == 0 {
		c.Unresolved(rule, "no registration of the decompression hook")
	}
}

// checkFilterHasNoScratchState (C13.R13): one compress filter serves one backend connection, whose writer goroutine
// compresses (Filter.Do) while its reader goroutine decompresses (the response hooks). The filter object is therefore
// shared by two goroutines and must not carry mutable scratch state: no method of the filter stores into a field of the
// receiver or hands the address of one to a call. (Work buffers come from the pool, per call.)
func checkFilterHasNoScratchState(c *Ctx, rule string) {
	p := c.P
	ft := p.Named(redisPkg, "compressFilter")
	if ft == nil {
		c.Unresolved(rule, "compressFilter")
		return
	}
	n, nbad := 0, 0
	for _, fn := range p.FuncsIn(redisPkg) {
		if p.isTestFn(fn) {
			continue
		}
		top := topFn(fn)
		if top.Signature.Recv() == nil || namedOf(deref(top.Signature.Recv().Type())) != ft {
			continue
		}
		n++
		var recv ssa.Value
		if len(top.Params) > 0 {
			recv = top.Params[0]
		}
		eachInstr(fn, func(_ *ssa.BasicBlock, _ int, in ssa.Instruction) {
			fa, ok := in.(*ssa.FieldAddr)
			if !ok {
				return
			}
			base := fa.X
			if fv, isFV := base.(*ssa.UnOp); isFV {
				base = fv.X
			}
			isRecv := fa.X == recv
			if fvv, ok := base.(*ssa.FreeVar); ok && fvv.Name() == "f" {
				isRecv = true
			}
			if !isRecv {
				return
			}
			fld, _ := fieldAddr(fa)
			for _, r := range *fa.Referrers() {
				mut := false
				switch x := r.(type) {
				case *ssa.Store:
					mut = x.Addr == ssa.Value(fa)
				case *ssa.Call:
					for _, a := range x.Call.Args {
						if a == ssa.Value(fa) {
							mut = true
						}
					}
				}
				if mut {
					nbad++
					c.Fail(rule, fmt.Sprintf("%s uses field %s of the shared filter as scratch state (#%d)", fnKey(fn), fld.Name(), nbad), r.Pos(), "a method of the compress filter writes a field of the filter (or hands its address to a call): the filter is used by the connection's writer goroutine (compress) and by its reader goroutine (decompress through the response hooks) at the same time - a shared buffer is overwritten in the middle of a value, the backend is sent bytes of another reply and reads come back different from what was written")
				}
			}
		})
	}
	if n == 0 {
		c.Unresolved(rule, "no method of compressFilter")
		return
	}
	if nbad == 0 {
		c.OK(rule, "the filter carries no mutable state", token.NoPos, fmt.Sprintf("%d functions of compressFilter examined: none stores into the receiver or passes the address of one of its fields", n))
	}
}

// predicateImpliesCompressionCfg: a boolean function that can only return true when the compression configuration is
// non-nil: every return is the constant false, a `cfg != nil` comparison (a conjunction ends in it), or sits on the
// non-nil side of such a test.
func predicateImpliesCompressionCfg(g *ssa.Function) bool {
	isCfgVal := func(v ssa.Value) bool {
		return derives(v, func(y ssa.Value) bool {
			if call, ok := y.(*ssa.Call); ok {
				if h := calleeFn(call.Common()); h != nil && h.Name() == "GetCompression" {
					return true
				}
			}
			if f, _ := loadedField(y); f != nil && f.Name() == "Compression" {
				return true
			}
			return false
		})
	}
	isCfgNonNil := func(v ssa.Value) bool {
		bo, ok := v.(*ssa.BinOp)
		return ok && bo.Op == token.NEQ && isNilConst(bo.Y) && isCfgVal(bo.X)
	}
	isFalse := func(v ssa.Value) bool {
		cst, ok := v.(*ssa.Const)
		return ok && cst.Value != nil && cst.Value.String() == "false"
	}
	onNonNilSide := func(b *ssa.BasicBlock) bool {
		for _, d := range g.Blocks {
			iff, ok := d.Instrs[len(d.Instrs)-1].(*ssa.If)
			if !ok {
				continue
			}
			bo, ok := iff.Cond.(*ssa.BinOp)
			if !ok || (bo.Op != token.EQL && bo.Op != token.NEQ) || !isNilConst(bo.Y) || !isCfgVal(bo.X) {
				continue
			}
			k := 1
			if bo.Op == token.NEQ {
				k = 0
			}
			if sb := d.Succs[k]; len(sb.Preds) == 1 && (sb == b || sb.Dominates(b)) {
				return true
			}
		}
		return false
	}
	okAll, n := true, 0
	eachInstr(g, func(b *ssa.BasicBlock, _ int, in ssa.Instruction) {
		ret, ok := in.(*ssa.Return)
		if !ok || len(ret.Results) != 1 {
			return
		}
		n++
		r := returnedValues(ret)[0]
		switch {
		case isFalse(r), isCfgNonNil(r), onNonNilSide(b):
		default:
			if ph, isPhi := r.(*ssa.Phi); isPhi {
				for _, e := range ph.Edges {
					if !isFalse(e) && !isCfgNonNil(e) {
						okAll = false
					}
				}
			} else {
				okAll = false
			}
		}
	})
	return okAll && n > 0
}

// checkDecompressionReadsWholeStream (C13.R14): what the client reads back is the whole value: nothing in the
// compression filter bounds the number of decompressed bytes. A limiting reader stops with a plain end of stream, so
// the truncation is not an error - a very compressible value comes back as a prefix of what was written.
func checkDecompressionReadsWholeStream(c *Ctx, rule string) {
	p := c.P
	n := 0
	for _, fn := range p.FuncsIn(redisPkg) {
		if p.isTestFn(fn) {
			continue
		}
		top := topFn(fn)
		if top.Signature.Recv() == nil || !modType(top.Signature.Recv().Type(), redisPkg, "compressFilter") {
			continue
		}
		n++
		var bad ssa.Instruction
		eachInstr(fn, func(_ *ssa.BasicBlock, _ int, in ssa.Instruction) {
			if isCallTo(in, "io.LimitReader", "io.CopyN", "io.ReadAtLeast", "io.ReadFull") {
				bad = in
			}
			if al, ok := in.(*ssa.Alloc); ok {
				if pt, ok := al.Type().(*types.Pointer); ok && types.TypeString(pt.Elem(), nil) == "io.LimitedReader" {
					bad = in
				}
			}
		})
		site := fnKey(fn) + " does not bound the decompressed size"
		if bad != nil {
			c.Fail(rule, site, bad.Pos(), "the filter reads the (de)compressed stream through a reader that stops after a fixed number of bytes: the stop is a plain end of stream, not an error, so a value that expands further - zero-padded records, repeated JSON - is returned as a prefix of what the client wrote")
		} else {
			c.OK(rule, site, fn.Pos(), "no limiting reader")
		}
	}
	if n == 0 {
		c.Unresolved(rule, "methods of compressFilter")
	}
}

// checkCompressionSectionNotRewritten (C13.R15): the filter registers its decompression hook whenever a compression
// section is present, enabled or not - values compressed while it was enabled must stay readable after it has been
// switched off. Code that hands the consumers a "canonical" configuration without the section when enable=false
// removes the hook with it: clients then read the stored header and snappy stream.
func checkCompressionSectionNotRewritten(c *Ctx, rule string) {
	p := c.P
	n := 0
	for _, rel := range []string{"proc/redis", "proc", "config", "controller"} {
		for _, fn := range p.FuncsIn(rel) {
			if p.isTestFn(fn) {
				continue
			}
			eachInstr(fn, func(_ *ssa.BasicBlock, _ int, in ssa.Instruction) {
				st, ok := in.(*ssa.Store)
				if !ok {
					return
				}
				f, base := fieldAddr(st.Addr)
				if f == nil || f.Name() != "Compression" {
					return
				}
				if n2 := namedOf(derefType(base.Type())); n2 == nil || n2.Obj().Pkg() == nil || !strings.HasPrefix(n2.Obj().Pkg().Path(), modPath+"/pb/") {
					return
				}
				n++
				c.Fail(rule, fmt.Sprintf("%s rewrites the compression section#%d", fnKey(fn), n), st.Pos(), "the Compression field of a configuration message is written by the proxy: a configuration whose section is dropped or replaced on the way to the filter (e.g. when enable=false) loses the decompression hook, and values stored while compression was on are handed to clients as header and compressed stream")
			})
		}
	}
	if n == 0 {
		c.OK(rule, "no store into a Compression field", token.NoPos, "the section is passed on as configured")
	}
}
