package main

import (
	"fmt"
	"go/token"
	"go/types"
	"sort"
	"strings"

	"golang.org/x/tools/go/ssa"
)

func init() {
	register(&propDef{
		id: "C19",
		li: levelInfo{
			Level:       "other",
			Explanation: "Static rules on the hot-key counter and collector. R1 (size bound): in Incr every path that inserts a new key while len(items) >= capacity crosses evict first; evict deletes exactly one map entry and add inserts exactly one. R2 (report cap): in the sorted insert the append is dominated by len < capacity and the shift-insert writes only below the old length. R3 (no key twice): a key handled in the already-hot loop is deleted from the accessed map before the new-keys loop; each loop inserts once per map key; the published slice comes from a sorted container created in the same collection (never a buffer that is already published). R4 (locks): Counter.items/freqHead only under Counter.mu, Collector.keys/counters only under rwmu, acyclic lock order, the free callback runs without Counter.mu. R5: a report contains only keys that were reported before or came out of a counter's Latch. R6: the frequency of a list node is immutable after creation, an incremented item moves to a node created with freq+1 right after its node, a new item enters at a freq-1 head node (the shape by which the list stays sorted). Exactness of counts and lowest-count eviction as such depend on pointer-shape invariants of the doubly linked list and are not decided. R7: no link field of a list node is read after Free() cleared it. R8: the counter method the per-period merge calls refreshes the last-update minute on every return path. R9: the map of tracked keys and the frequency list are emptied together. R10: the HOTKEY report lists the tracked key names verbatim. R11 (shared with C13.R11): the bytes of a pooled buffer are only copied out of the function that releases the buffer. R12: lookup and insertion of a key under one acquisition of the mutex. R13: the list primitives are executed symbolically over all neighbour shapes and compared with the doubly-linked-list specification. R3 follows the publication of the key set into a helper. R14: the slice HotKeys() returns is never sorted or written in place by a reader. R11 also: a function that takes an object from a pool and gives it back returns nothing derived from it.",
			TrustedBase: []string{"go/ssa", "samlint elock.go"},
		},
		run: checkC19,
	})
	techniques["C19"] = "static analysis: must-pass-through and dominance on the SSA CFG, must-hold lockset dataflow with lock-order graph, field immutability (who-may-write)"
}

const hkPkg = "proc/redis/hotkey"

func checkC19(c *Ctx) {
	p := c.P
	c.Rule("R1", "size bound: insert at capacity crosses evict; evict deletes one entry, add inserts one")
	c.Rule("R2", "report cap: append only under len<capacity; shift-insert writes below the old length")
	c.Rule("R3", "no key twice: handled keys deleted before the new-keys loop; one insert per key; fresh container per collection")
	c.Rule("R4", "lock discipline and acyclic lock order; free callback without the counter lock")
	c.Rule("R5", "report keys come from previous reports or from a counter's Latch")
	c.Rule("R6", "frequency nodes: freq immutable after creation; increment creates freq+1 right after; add enters at freq 1")
	c.Rule("R7", "no link field of a list node is read after Free() cleared it")
	c.Rule("R8", "a counter method that refreshes the last-update minute does so on every return path")

	items := p.Field(hkPkg, "Counter", "items")
	head := p.Field(hkPkg, "Counter", "freqHead")
	cmu := p.Field(hkPkg, "Counter", "mu")
	keys := p.Field(hkPkg, "Collector", "keys")
	counters := p.Field(hkPkg, "Collector", "counters")
	rwmu := p.Field(hkPkg, "Collector", "rwmu")
	incr := p.Func(hkPkg, "(*Counter).Incr")
	evict := p.Func(hkPkg, "(*Counter).evict")
	add := p.Func(hkPkg, "(*Counter).add")
	if items == nil || head == nil || cmu == nil || keys == nil || counters == nil || rwmu == nil || incr == nil || evict == nil || add == nil {
		c.Unresolved("R1", "hotkey.Counter / Collector anchors")
		return
	}
	// ---------------- R1
	func() {
		var addCall ssa.Instruction
		eachInstr(incr, func(_ *ssa.BasicBlock, _ int, in ssa.Instruction) {
			if isCallToFn(in, add) {
				addCall = in
			}
		})
		if addCall == nil {
			c.Fail("R1", "Incr inserts through add", incr.Pos(), "Incr does not insert new keys through add")
			return
		}
		// capacity test
		var full *ssa.BasicBlock
		var okCmp bool
		for _, b := range incr.Blocks {
			iff, ok := b.Instrs[len(b.Instrs)-1].(*ssa.If)
			if !ok {
				continue
			}
			bo, ok := iff.Cond.(*ssa.BinOp)
			if !ok {
				continue
			}
			lenSide, capSide := stripConv(bo.X), stripConv(bo.Y)
			call, isLen := lenSide.(*ssa.Call)
			if !isLen || !isBuiltin(call, "len") {
				continue
			}
			if f, _ := loadedField(call.Call.Args[0]); f != items {
				continue
			}
			if f, _ := loadedField(capSide); f == nil || f.Name() != "capacity" {
				continue
			}
			switch bo.Op {
			case token.GEQ:
				full, okCmp = b.Succs[0], true
			case token.LSS:
				full, okCmp = b.Succs[1], true
			case token.GTR, token.LEQ, token.EQL, token.NEQ:
				full, okCmp = nil, false
				c.Fail("R1", "capacity test", bo.Pos(), "the capacity test is `len "+bo.Op.String()+" capacity`: at len == capacity a new key is inserted without evicting (capacity+1 keys tracked) or eviction happens one too early")
			}
		}
		if !okCmp || full == nil {
			if !okCmp {
				c.Fail("R1", "capacity test before insert", incr.Pos(), "Incr does not compare len(items) with capacity (>=) before inserting")
			}
			return
		}
		path := findPath(ipos{full, -1}, pathQuery{target: func(x ssa.Instruction) bool { return x == addCall }, avoid: func(x ssa.Instruction) bool { return isCallToFn(x, evict) }})
		c.Check(path == nil, "R1", "evict before insert when full", addCall.Pos(), "every path from len>=capacity to add crosses evict", "a new key can be inserted at capacity without evicting first: the counter tracks more keys than its capacity")
		// the capacity test dominates add
		c.Check(full != nil && len(full.Preds) == 1 && full.Preds[0].Dominates(addCall.Block()), "R1", "capacity test dominates the insert", addCall.Pos(), "test before every insert", "a path reaches add without passing the capacity test")
		one := func(fn *ssa.Function, isOp func(ssa.Instruction) bool, what string) {
			var ops []ssa.Instruction
			eachInstr(fn, func(_ *ssa.BasicBlock, _ int, in ssa.Instruction) {
				if isOp(in) {
					ops = append(ops, in)
				}
			})
			ok := len(ops) == 1
			if ok {
				ok = escapesWithout(entryPos(fn), func(x ssa.Instruction) bool { return x == ops[0] }) == nil
			}
			c.Check(ok, "R1", fnKey(fn)+" "+what, fn.Pos(), "exactly one, on every path", fmt.Sprintf("%s: %d sites or not on every path", what, len(ops)))
		}
		one(evict, func(in ssa.Instruction) bool {
			if !isBuiltin(in, "delete") {
				return false
			}
			f, _ := loadedField(callOf(in).Args[0])
			return f == items
		}, "deletes one entry")
		one(add, func(in ssa.Instruction) bool {
			mu, ok := in.(*ssa.MapUpdate)
			if !ok {
				return false
			}
			f, _ := loadedField(mu.Map)
			return f == items
		}, "inserts one entry")
	}()
	c.Expect("R1", 4)

	// ---------------- R2
	if ins := p.Func(hkPkg, "(*sortedHotKeys).Insert"); ins == nil {
		c.Unresolved("R2", "sortedHotKeys.Insert")
	} else {
		dataF := p.Field(hkPkg, "sortedHotKeys", "data")
		var l ssa.Value // len(s.data) at entry
		eachInstr(ins, func(b *ssa.BasicBlock, _ int, in ssa.Instruction) {
			if call, ok := in.(*ssa.Call); ok && isBuiltin(call, "len") && b == ins.Blocks[0] && l == nil {
				if f, _ := loadedField(call.Call.Args[0]); f == dataF {
					l = call
				}
			}
		})
		if l == nil {
			c.Undecided("R2", "Insert shape", ins.Pos(), "no len(s.data) at entry")
		} else {
			// stores to data: only append(load data, x)
			okMono := true
			var app *ssa.Call
			eachInstr(ins, func(_ *ssa.BasicBlock, _ int, in ssa.Instruction) {
				st, ok := in.(*ssa.Store)
				if !ok {
					return
				}
				if f, _ := fieldAddr(st.Addr); f != dataF {
					return
				}
				call, ok := st.Val.(*ssa.Call)
				if !ok || !isBuiltin(call, "append") {
					okMono = false
					return
				}
				if f, _ := loadedField(call.Call.Args[0]); f != dataF {
					okMono = false
				}
				app = call
			})
			c.Check(okMono && app != nil, "R2", "data only grows by append", ins.Pos(), "s.data = append(s.data, key)", "the report slice is reassigned by something other than an append of itself")
			if app != nil {
				// append dominated by l < capacity
				okCap := false
				for _, r := range *l.Referrers() {
					cv := r
					if cvt, ok := r.(*ssa.Convert); ok {
						for _, rr := range *cvt.Referrers() {
							cv = rr
							if bo, ok := cv.(*ssa.BinOp); ok && bo.Op == token.LSS && bo.X == ssa.Value(cvt) {
								if f, _ := loadedField(bo.Y); f != nil && f.Name() == "capacity" && condEdge(app.Block(), bo, true) {
									okCap = true
								}
							}
						}
					}
					if bo, ok := cv.(*ssa.BinOp); ok && bo.Op == token.LSS && bo.X == l {
						if f, _ := loadedField(stripConv(bo.Y)); f != nil && f.Name() == "capacity" && condEdge(app.Block(), bo, true) {
							okCap = true
						}
					}
				}
				c.Check(okCap, "R2", "append only under len < capacity", app.Pos(), "dominated by len(data) < capacity", "the report can grow beyond the collector's capacity (`<=` or missing test)")
			}
			// element store data[i] = key dominated by i < l
			nst := 0
			eachInstr(ins, func(b *ssa.BasicBlock, _ int, in ssa.Instruction) {
				st, ok := in.(*ssa.Store)
				if !ok {
					return
				}
				ia, ok := st.Addr.(*ssa.IndexAddr)
				if !ok {
					return
				}
				if f, _ := loadedField(ia.X); f != dataF {
					return
				}
				nst++
				okIdx := false
				for _, r := range *l.Referrers() {
					if bo, ok := r.(*ssa.BinOp); ok && bo.Op == token.LSS && bo.Y == l && bo.X == ia.Index && condEdge(b, bo, true) {
						okIdx = true
					}
				}
				c.Check(okIdx, "R2", fmt.Sprintf("shift-insert#%d below the old length", nst), st.Pos(), "data[i] written only when i < old len", "the shift-insert can write at or beyond the old length")
			})
		}
	}
	c.Expect("R2", 3)

	// ---------------- R3 + R5
	if col := p.Func(hkPkg, "(*Collector).collect"); col == nil {
		c.Unresolved("R3", "Collector.collect")
	} else {
		insFn := p.Func(hkPkg, "(*sortedHotKeys).Insert")
		newSorted := p.Func(hkPkg, "newSortedHotKeys")
		// published slice
		var pub *ssa.Store
		eachInstr(col, func(_ *ssa.BasicBlock, _ int, in ssa.Instruction) {
			if st, ok := in.(*ssa.Store); ok {
				if f, _ := fieldAddr(st.Addr); f == keys {
					pub = st
				}
			}
		})
		// the report may be published by a helper that is handed it (setHotKeys(res.Data()))
		var pubSrc ssa.Value
		if pub != nil {
			pubSrc = pub.Val
		} else {
			eachInstr(col, func(_ *ssa.BasicBlock, _ int, in ssa.Instruction) {
				call, ok := in.(*ssa.Call)
				if !ok || pub != nil {
					return
				}
				g := calleeFn(call.Common())
				if g == nil || !isModFn(g) || g.Blocks == nil {
					return
				}
				eachInstr(g, func(_ *ssa.BasicBlock, _ int, x ssa.Instruction) {
					if st, ok := x.(*ssa.Store); ok {
						if f, _ := fieldAddr(st.Addr); f == keys {
							if prm, ok := st.Val.(*ssa.Parameter); ok {
								if idx := paramIndex(g, prm); idx >= 0 && idx < len(call.Call.Args) {
									pub, pubSrc = st, call.Call.Args[idx]
								}
							}
						}
					}
				})
			})
		}
		if pub == nil {
			c.Fail("R3", "collect publishes", col.Pos(), "collect does not publish a report")
		} else {
			// the published value is container.Data(); look at the container
			src := pubSrc
			if cl, ok := src.(*ssa.Call); ok && len(cl.Call.Args) >= 1 {
				if g := calleeFn(cl.Common()); g != nil && g.Signature.Recv() != nil && modType(g.Signature.Recv().Type(), hkPkg, "sortedHotKeys") {
					src = cl.Call.Args[0]
				}
			}
			fresh := derivesOnly(src, func(v ssa.Value) bool { cl, ok := v.(*ssa.Call); return ok && isCallToFn(cl, newSorted) })
			fromField := derives(src, func(v ssa.Value) bool {
				f, base := loadedField(v)
				_, isParam := base.(*ssa.Parameter)
				return f != nil && isParam && modType(base.Type(), hkPkg, "Collector")
			})
			c.Check(fresh && !fromField, "R3", "published report comes from a fresh container", pub.Pos(), "res := newSortedHotKeys(...) in this collection; c.keys = res.Data()", "the report that is published shares its backing array with a buffer kept by the collector: the next collection rewrites the report that readers currently hold (keys listed twice, order lost)")
			c.Check(le19(p).heldAt(pub)[rwmu] == lockWrite, "R4", "report published under the write lock", pub.Pos(), "c.keys assigned under rwmu.Lock", "the report is published without the collector's write lock")
		}
		// the two range loops and their inserts
		type loopInfo struct {
			rng     *ssa.Range
			inserts []ssa.Instruction
			deletes []ssa.Instruction
			hdr     *ssa.BasicBlock
		}
		var loops []loopInfo
		eachInstr(col, func(b *ssa.BasicBlock, _ int, in ssa.Instruction) {
			r, ok := in.(*ssa.Range)
			if !ok {
				return
			}
			if _, isMap := r.X.Type().Underlying().(*types.Map); !isMap {
				return
			}
			// loop header: the block of the Next instruction
			var hdr *ssa.BasicBlock
			for _, u := range *r.Referrers() {
				if nx, ok := u.(*ssa.Next); ok {
					hdr = nx.Block()
				}
			}
			if hdr == nil {
				return
			}
			li := loopInfo{rng: r, hdr: hdr}
			eachInstr(col, func(b2 *ssa.BasicBlock, _ int, x ssa.Instruction) {
				if !hdr.Dominates(b2) || b2 == hdr {
					return
				}
				// body blocks: those from which the header is reachable
				if findPath(ipos{b2, -1}, pathQuery{target: func(y ssa.Instruction) bool { return y.Block() == hdr }}) == nil {
					return
				}
				if isCallToFn(x, insFn) {
					li.inserts = append(li.inserts, x)
				}
				if isBuiltin(x, "delete") {
					li.deletes = append(li.deletes, x)
				}
			})
			if len(li.inserts) > 0 {
				loops = append(loops, li)
			}
		})
		if len(loops) != 2 {
			c.Undecided("R3", "merge loops", col.Pos(), fmt.Sprintf("expected two insert loops (already hot, new keys), found %d", len(loops)))
		} else {
			first, second := loops[0], loops[1]
			if second.hdr.Dominates(first.hdr) {
				first, second = second, first
			}
			for i, li := range []loopInfo{first, second} {
				c.Check(len(li.inserts) == 1, "R3", fmt.Sprintf("merge loop %d inserts once per key", i+1), li.rng.Pos(), "one Insert per iteration", fmt.Sprintf("%d Insert calls per iteration", len(li.inserts)))
			}
			// first loop deletes its key from the second loop's map on every iteration path
			okDel := false
			for _, d := range first.deletes {
				cc := callOf(d)
				if cc.Args[0] == second.rng.X {
					// key is the range key of the first loop
					isKey := derives(cc.Args[1], func(v ssa.Value) bool {
						nx, ok := v.(*ssa.Next)
						return ok && nx.Iter == ssa.Value(first.rng)
					})
					if isKey && instrDominatesOrSameIter(d, first.hdr) {
						okDel = true
					}
				}
			}
			c.Check(okDel, "R3", "handled keys removed before the new-keys loop", first.rng.Pos(), "delete(accessed, key) in every iteration of the already-hot loop", "a key that is already hot is not removed from the accessed map: the new-keys loop inserts it a second time and the report lists it twice")
			// R5: inserted names are the range keys
			for i, li := range []loopInfo{first, second} {
				okSrc := false
				if len(li.inserts) == 1 {
					okSrc = derives(callOf(li.inserts[0]).Args[1], func(v ssa.Value) bool {
						nx, ok := v.(*ssa.Next)
						return ok && nx.Iter == ssa.Value(li.rng)
					})
				}
				c.Check(okSrc, "R5", fmt.Sprintf("merge loop %d inserts its own range key", i+1), li.rng.Pos(), "HotKey.Name is the key of the map being ranged", "a key that was neither reported before nor accessed can enter the report")
			}
			// maps: first ranges over a map built from c.keys, second over a map filled from Latch()
			latch := p.Func(hkPkg, "(*Counter).Latch")
			okLatch := false
			for _, lf := range append([]*ssa.Function{col}, staticCalleesDeep(col, 2)...) {
				eachInstr(lf, func(_ *ssa.BasicBlock, _ int, in ssa.Instruction) {
					mu, ok := in.(*ssa.MapUpdate)
					if !ok {
						return
					}
					fromLatch := derives(mu.Key, func(v ssa.Value) bool {
						nx, ok := v.(*ssa.Next)
						if !ok {
							return false
						}
						r, ok := nx.Iter.(*ssa.Range)
						if !ok {
							return false
						}
						cl, ok := r.X.(*ssa.Call)
						return ok && isCallToFn(cl, latch)
					})
					if !fromLatch {
						return
					}
					// the filled map is the one the new-keys loop ranges over: the same value, or returned by this helper
					if mu.Map == second.rng.X {
						okLatch = true
					}
					if call, ok := second.rng.X.(*ssa.Call); ok && calleeFn(call.Common()) == lf {
						eachInstr(lf, func(_ *ssa.BasicBlock, _ int, x ssa.Instruction) {
							if ret, ok := x.(*ssa.Return); ok {
								for _, r := range returnedValues(ret) {
									if r == mu.Map {
										okLatch = true
									}
								}
							}
						})
					}
				})
			}
			c.Check(okLatch, "R5", "accessed map is filled from Latch()", col.Pos(), "keys of accessed come from counter.Latch()", "the accessed-keys map is not filled from the counters' Latch results")
		}
	}
	c.Expect("R3", 4)
	c.Expect("R5", 3)

	// ---------------- R4
	le := le19(p)
	le.checkGuarded(c, "R4", "Counter", items, cmu, nil)
	le.checkGuarded(c, "R4", "Counter", head, cmu, nil)
	le.checkGuarded(c, "R4", "Collector", keys, rwmu, nil)
	le.checkGuarded(c, "R4", "Collector", counters, rwmu, nil)
	// lock order: direct edges + calls under a lock to functions that may acquire another
	edges := map[[2]*types.Var]ssa.Instruction{}
	for k, v := range le.order {
		edges[k] = v
	}
	for _, fn := range le.fns {
		eachInstr(fn, func(_ *ssa.BasicBlock, _ int, in ssa.Instruction) {
			held := le.heldAt(in)
			if len(held) == 0 {
				return
			}
			ci, ok := in.(ssa.CallInstruction)
			if !ok {
				return
			}
			if _, isGo := in.(*ssa.Go); isGo {
				return
			}
			if _, op := mutexOp(in); op != "" {
				return
			}
			for _, g := range p.callees(ci) {
				if !isModFn(g) {
					continue
				}
				for L2 := range le.mayAcquire(g, map[*ssa.Function]bool{}) {
					for L1 := range held {
						if L1 != L2 {
							if _, ok := edges[[2]*types.Var{L1, L2}]; !ok {
								edges[[2]*types.Var{L1, L2}] = in
							}
						} else if L1 == L2 {
							edges[[2]*types.Var{L1, L2}] = in
						}
					}
				}
			}
		})
	}
	cyc := ""
	for e, at := range edges {
		if e[0] == e[1] {
			cyc = fmt.Sprintf("%s re-acquired while held at %s", e[0].Name(), p.Pos(at.Pos()))
			continue
		}
		if at2, ok := edges[[2]*types.Var{e[1], e[0]}]; ok {
			cyc = fmt.Sprintf("%s -> %s at %s and %s -> %s at %s", e[0].Name(), e[1].Name(), p.Pos(at.Pos()), e[1].Name(), e[0].Name(), p.Pos(at2.Pos()))
		}
	}
	c.Check(cyc == "", "R4", "lock order acyclic", token.NoPos, fmt.Sprintf("%d order edges, no cycle", len(edges)), "lock-order cycle (deadlock between HOTKEY readers, the collector and request writers): "+cyc)
	// free callback without the counter lock
	if fr := p.Func(hkPkg, "(*Counter).Free"); fr != nil {
		eachInstr(fr, func(_ *ssa.BasicBlock, _ int, in ssa.Instruction) {
			cc := callOf(in)
			if cc == nil || calleeFn(cc) != nil || cc.IsInvoke() {
				return
			}
			if f, _ := loadedField(cc.Value); f != nil {
				if _, isSig := f.Type().Underlying().(*types.Signature); !isSig {
					return
				}
				c.Check(le.heldAt(in)[cmu] == lockNone, "R4", "free callback runs without Counter.mu", in.Pos(), "lockset empty at the callback", "the free callback (which takes the collector lock) is invoked with Counter.mu held while the collector latches counters under its own lock: lock-order inversion")
			}
		})
	}
	c.Expect("R4", 12)

	// ---------------- R6
	freqF := p.Field(hkPkg, "freqNode", "freq")
	if freqF == nil {
		c.Unresolved("R6", "freqNode.freq")
	} else {
		n := 0
		for _, a := range p.fieldAccesses(freqF) {
			if !a.Write {
				continue
			}
			n++
			site := fmt.Sprintf("write#%d of freqNode.freq in %s", n, fnKey(a.Fn))
			c.Check(isFreshAlloc(a.Base), "R6", site, a.In.Pos(), "only at creation of the node", "the frequency of an existing list node is modified in place: two nodes can end up with equal or out-of-order frequencies, after which evict() no longer removes a lowest-count key")
		}
		// increment: the new node is created with cur.freq+1 and inserted after the current node
		// the increment function by role: the one that creates a node with (loaded freq)+1
		var inc *ssa.Function
		for _, a := range p.fieldAccesses(freqF) {
			if st, ok := a.In.(*ssa.Store); ok && a.Write {
				if bo, ok := st.Val.(*ssa.BinOp); ok && bo.Op == token.ADD {
					if ff, _ := loadedField(bo.X); ff == freqF {
						inc = a.Fn
					}
				}
			}
		}
		if inc == nil {
			c.Fail("R6", "increment moves the item to a freq+1 node right after its node", token.NoPos, "no function creates a node with the current frequency plus one")
		} else {
			okNew := false
			eachInstr(inc, func(_ *ssa.BasicBlock, _ int, in ssa.Instruction) {
				st, ok := in.(*ssa.Store)
				if !ok {
					return
				}
				if f, base := fieldAddr(st.Addr); f == freqF && isFreshAlloc(base) {
					if bo, ok := st.Val.(*ssa.BinOp); ok && bo.Op == token.ADD {
						if k, isC := constInt(bo.Y); isC && k == 1 {
							if ff, _ := loadedField(bo.X); ff == freqF {
								// inserted after the current node
								eachInstr(inc, func(_ *ssa.BasicBlock, _ int, x ssa.Instruction) {
									if cc := callOf(x); cc != nil {
										if g := calleeFn(cc); g != nil && g.Name() == "InsertAfterMe" && cc.Args[1] == base {
											okNew = true
										}
									}
								})
							}
						}
					}
				}
			})
			c.Check(okNew, "R6", "increment moves the item to a freq+1 node right after its node", inc.Pos(), "new node{freq: cur+1}; cur.InsertAfterMe(new)", "an incremented item is not moved to a node with exactly freq+1 placed right after its current node")
			// reuse of next only when next.freq == cur+1
			okReuse := false
			eachInstr(inc, func(_ *ssa.BasicBlock, _ int, in ssa.Instruction) {
				if bo, ok := in.(*ssa.BinOp); ok && (bo.Op == token.NEQ || bo.Op == token.EQL) {
					if ff, _ := loadedField(bo.X); ff == freqF {
						if b2, ok := bo.Y.(*ssa.BinOp); ok && b2.Op == token.ADD {
							if k, isC := constInt(b2.Y); isC && k == 1 {
								okReuse = true
							}
						}
					}
				}
			})
			c.Check(okReuse, "R6", "existing next node reused only when its freq is cur+1", inc.Pos(), "next.freq compared with cur+1", "the next node is reused without checking that its frequency is exactly cur+1")
		}
		// add: freq 1 at head
		okAdd := false
		eachInstr(add, func(_ *ssa.BasicBlock, _ int, in ssa.Instruction) {
			if st, ok := in.(*ssa.Store); ok {
				if f, base := fieldAddr(st.Addr); f == freqF && isFreshAlloc(base) {
					if k, isC := constInt(st.Val); isC && k == 1 {
						okAdd = true
					}
				}
			}
		})
		c.Check(okAdd, "R6", "new items enter at a freq-1 node", add.Pos(), "node{freq: 1}", "a new key does not start with count 1")
	}
	c.Expect("R6", 5)
	checkNoUseAfterFree(c, "R7")
	checkLutRefresh(c, "R8")
	c.Rule("R9", "the map of tracked keys and the frequency list are emptied together")
	checkResetTogether(c, "R9")
	c.Rule("R10", "the HOTKEY report lists the tracked key names verbatim")
	checkReportNamesVerbatim(c, "R10")
	c.Rule("R14", "the published list of hot keys is read-only for its readers: the slice HotKeys() returns is the collector's own, shared by every HOTKEY command; nobody sorts it or writes its elements in place")
	if hk := p.Func("proc/redis/hotkey", "(*Collector).HotKeys"); hk != nil {
		checkSharedListImmutable(c, "R14", hk, "hotkey.HotKey")
	} else {
		c.Unresolved("R14", "(*Collector).HotKeys")
	}
	c.Rule("R11", "the report is built from bytes the handler owns: the bytes of a pooled buffer are only copied out of the function that releases it (shared with C13.R11)")
	checkPooledBytesEscape(c, "R11")
	c.Rule("R12", "the lookup of a key and the insertion it decides are covered by one acquisition of the counter's mutex")
	checkLookupInsertAtomic(c, "R12")
	c.Rule("R13", "list surgery: InsertAfterMe / InsertBeforeMe / Free of the frequency buckets leave a doubly linked list (symbolic execution over all neighbour shapes)")
	checkListSurgery(c, "R13")
}

var le19cache *lockEngine

func le19(p *Prog) *lockEngine {
	if le19cache == nil || le19cache.p != p {
		le19cache = newLockEngine(p, hkPkg)
	}
	return le19cache
}

// instrDominatesOrSameIter: instruction d lies on every path of one loop iteration from the header's body entry back to the header.
func instrDominatesOrSameIter(d ssa.Instruction, hdr *ssa.BasicBlock) bool {
	// body entry = successor of hdr that is dominated by hdr and from which hdr is reachable
	for _, s := range hdr.Succs {
		if !hdr.Dominates(s) {
			continue
		}
		if findPath(ipos{s, -1}, pathQuery{target: func(y ssa.Instruction) bool { return y.Block() == hdr }}) == nil {
			continue
		}
		// every path from s back to hdr crosses d
		if findPath(ipos{s, -1}, pathQuery{target: func(y ssa.Instruction) bool { return y.Block() == hdr }, avoid: func(y ssa.Instruction) bool { return y == d }}) == nil {
			return true
		}
	}
	return false
}

// checkNoUseAfterFree (C19.R7): Free() of a list node unlinks it and clears its own links. Reading a link field of the
// node after that call reads nil: the frequency list loses its head (or its tail), the older buckets become
// unreachable and can never be evicted - a full counter then evicts a key that is not a lowest-count key.
func checkNoUseAfterFree(c *Ctx, rule string) {
	p := c.P
	n := 0
	for _, fn := range p.FuncsIn(hkPkg) {
		if p.isTestFn(fn) {
			continue
		}
		perFn := 0
		eachInstr(fn, func(_ *ssa.BasicBlock, _ int, in ssa.Instruction) {
			call, ok := in.(*ssa.Call)
			if !ok {
				return
			}
			g := calleeFn(call.Common())
			if g == nil || g.Name() != "Free" || g.Signature.Recv() == nil || len(call.Call.Args) == 0 {
				return
			}
			rt := g.Signature.Recv().Type()
			if !modType(deref(rt), hkPkg, "freqNode") && !modType(deref(rt), hkPkg, "itemNode") {
				return
			}
			recv := call.Call.Args[0]
			n++
			perFn++
			site := fmt.Sprintf("%s Free#%d: node not read afterwards", fnKey(fn), perFn)
			var use ssa.Instruction
			path := findPath(posOf(call), pathQuery{target: func(x ssa.Instruction) bool {
				ld, ok := x.(*ssa.UnOp)
				if !ok || ld.Op != token.MUL {
					return false
				}
				if fa, ok := ld.X.(*ssa.FieldAddr); ok && fa.X == recv {
					use = x
					return true
				}
				return false
			}})
			if path != nil {
				c.Fail(rule, site, use.Pos(), "a link field of the node is read after Free() cleared it ("+p.pathString(path)+"): the value is nil, so the list loses the nodes behind it - they stay tracked but can never be evicted, and a full counter evicts a key that is not a lowest-count key")
			} else {
				c.OK(rule, site, call.Pos(), "no field of the node is read on any path after Free()")
			}
		})
	}
	c.Expect(rule, 2)
	_ = n
}

// checkLutRefresh (C19.R8): the decay pass halves a reported key only when its last-update minute is old, and relies on
// all reported keys carrying the minute of the last collection. A counter method that refreshes that minute must do
// so on every return path - a fast path that returns early leaves some keys with an old minute, so the decay halves
// some keys and not others and the report is no longer ordered by heat.
func checkLutRefresh(c *Ctx, rule string) {
	p := c.P
	lut := p.Field(hkPkg, "logrithmCounter", "lut")
	if lut == nil {
		c.Unresolved(rule, "logrithmCounter.lut")
		return
	}
	// the methods in question: writers of the minute that the per-period merge calls for every reported key (the decay
	// pass's own halving is exempt: a value that is already 0 needs no decay and its minute does not matter)
	collect := p.Func(hkPkg, "(*Collector).collect")
	if collect == nil {
		c.Unresolved(rule, "(*Collector).collect")
		return
	}
	calledByCollect := map[*ssa.Function]bool{}
	for _, g := range staticCalleesDeep(collect, 2) {
		calledByCollect[g] = true
	}
	n := 0
	seen := map[*ssa.Function]bool{}
	for _, a := range p.fieldAccesses(lut) {
		if !a.Write || seen[a.Fn] || p.isTestFn(a.Fn) || !calledByCollect[a.Fn] {
			continue
		}
		seen[a.Fn] = true
		fn := a.Fn
		n++
		isStore := func(x ssa.Instruction) bool {
			st, ok := x.(*ssa.Store)
			if !ok {
				return false
			}
			f, _ := fieldAddr(st.Addr)
			return f == lut
		}
		path := findPath(entryPos(fn), pathQuery{target: isReturn, avoid: isStore})
		c.Check(path == nil, rule, fnKey(fn)+" refreshes the last-update minute on every path", fn.Pos(), "every return crosses the store", "a path returns without refreshing the last-update minute ("+p.pathString(path)+"): keys that take it keep an old minute, the decay pass halves them alone and the HOTKEY report is no longer ordered by non-increasing heat")
	}
	c.Expect(rule, 1)
}

// checkResetTogether (C19.R9): the map of tracked keys and the frequency list describe the same set. Whatever empties
// one at a collection point must empty the other: a function that replaces or clears the map has to reset the list
// head on every path, otherwise the previous period's nodes stay linked - evict() then pops nodes whose keys are no
// longer in the map, nothing is really evicted and the counter tracks more keys than its capacity.
func checkResetTogether(c *Ctx, rule string) {
	p := c.P
	items := p.Field(hkPkg, "Counter", "items")
	head := p.Field(hkPkg, "Counter", "freqHead")
	if items == nil || head == nil {
		c.Unresolved(rule, "Counter.items / Counter.freqHead")
		return
	}
	n := 0
	for _, fn := range p.FuncsIn(hkPkg) {
		if p.isTestFn(fn) {
			continue
		}
		var clears ssa.Instruction
		eachInstr(fn, func(b *ssa.BasicBlock, _ int, in ssa.Instruction) {
			switch x := in.(type) {
			case *ssa.Store:
				// items = make(...) on an existing counter
				if f, base := fieldAddr(x.Addr); f == items && !isFreshAlloc(base) {
					if _, isMk := x.Val.(*ssa.MakeMap); isMk {
						clears = in
					}
				}
			case *ssa.Call:
				// for k := range items { delete(items, k) }: a delete keyed by the range variable of the same map
				if isBuiltin(x, "delete") {
					if f, _ := loadedField(x.Call.Args[0]); f == items {
						if derives(x.Call.Args[1], func(v ssa.Value) bool {
							nx, ok := v.(*ssa.Next)
							if !ok {
								return false
							}
							rg, ok := nx.Iter.(*ssa.Range)
							if !ok {
								return false
							}
							rf, _ := loadedField(rg.X)
							return rf == items
						}) {
							clears = in
						}
					}
				}
			}
		})
		if clears == nil {
			continue
		}
		n++
		resetsHead := func(x ssa.Instruction) bool {
			st, ok := x.(*ssa.Store)
			if !ok {
				return false
			}
			f, _ := fieldAddr(st.Addr)
			return f == head && isNilConst(st.Val)
		}
		ok, _ := p.mustOnAllPaths(fn, resetsHead, 1)
		c.Check(ok, rule, fnKey(fn)+" empties the map and the frequency list together", clears.Pos(), "every path also resets the list head", "the map of tracked keys is emptied but the frequency list keeps the previous period's nodes: once the counter is full again evict() pops stale nodes (their delete from the map is a no-op) and the newcomer is added anyway - the counter tracks more keys than its capacity")
	}
	if n == 0 {
		c.Unresolved(rule, "no function empties Counter.items")
	}
}

// checkReportNamesVerbatim (C19.R10): the HOTKEY report lists the names the collector tracks. A name that is cut,
// folded or otherwise transformed on its way into the reply is a key nobody accessed, and two tracked keys can collapse
// into one listed name.
func checkReportNamesVerbatim(c *Ctx, rule string) {
	p := c.P
	h := p.Func(redisPkg, "handleHotKey")
	nameF := p.Field(hkPkg, "HotKey", "Name")
	if h == nil || nameF == nil {
		c.Unresolved(rule, "handleHotKey / HotKey.Name")
		return
	}
	used, bad := 0, ""
	var at token.Pos = h.Pos()
	for _, fn := range append([]*ssa.Function{h}, staticCalleesDeep(h, 1)...) {
		if fn.Pkg == nil || fn.Pkg.Pkg.Path() != modPath+"/"+redisPkg {
			continue
		}
		eachInstr(fn, func(_ *ssa.BasicBlock, _ int, in ssa.Instruction) {
			// every value that derives from HotKey.Name and is sliced, or passed to a transforming string function
			switch x := in.(type) {
			case *ssa.Slice:
				if derives(x.X, func(v ssa.Value) bool { f, _ := loadedField(v); return f == nameF }) && (x.High != nil || x.Low != nil) {
					bad = "a slice expression"
					at = x.Pos()
				}
			case *ssa.Call:
				g := calleeFn(x.Common())
				for _, a := range x.Call.Args {
					if !derives(a, func(v ssa.Value) bool { f, _ := loadedField(v); return f == nameF }) {
						continue
					}
					used++
					if g != nil && g.Pkg != nil && (g.Pkg.Pkg.Path() == "strings" || g.Pkg.Pkg.Path() == "bytes") {
						switch g.Name() {
						case "ToLower", "ToUpper", "TrimSpace", "Trim", "TrimRight", "TrimLeft", "Title", "Replace", "ReplaceAll", "Fields", "Split":
							bad = g.Pkg.Pkg.Path() + "." + g.Name()
							at = x.Pos()
						}
					}
				}
			}
		})
	}
	if used == 0 {
		c.Fail(rule, "HOTKEY report lists the tracked names", h.Pos(), "the HOTKEY handler does not put the tracked key names into its reply")
		return
	}
	c.Check(bad == "", rule, "HOTKEY report lists the tracked names verbatim", at, "names go into the reply unchanged", "a tracked key name passes through "+bad+" on its way into the reply: the report lists a name that no client accessed, and two tracked keys with a common prefix are listed as the same key twice")
}

// checkPooledBytesEscape (C19.R11, C13.R11): a buffer taken from a sync.Pool is handed to the next user as soon as it
// is released; the slice returned by its Bytes() aliases the pooled array. Wherever a function takes a pooled buffer
// and releases it (Close / Put, deferred or not), the bytes it obtains from the buffer may only be copied out (copy,
// append-spread, string conversion, standard-library writers) - they must not be stored, returned, or handed to module
// code that keeps them: the HOTKEY report (or a decompressed value) would be rewritten by the next pool user before
// the session writer encodes it.
func checkPooledBytesEscape(c *Ctx, rule string) {
	p := c.P
	// pooled constructors: module functions that Get from a sync.Pool and return a wrapper of the pooled object
	pooledCtor := map[*ssa.Function]bool{}
	for _, fn := range p.FuncsIn(redisPkg) {
		if p.isTestFn(fn) || fn.Signature.Results().Len() != 1 {
			continue
		}
		gets := false
		eachInstr(fn, func(_ *ssa.BasicBlock, _ int, in ssa.Instruction) {
			if cc := callOf(in); cc != nil {
				if g := calleeFn(cc); g != nil && g.String() == "(*sync.Pool).Get" {
					gets = true
				}
			}
		})
		if gets {
			pooledCtor[fn] = true
		}
	}
	n, nbad := 0, 0
	// a function that takes an object from a pool and gives it back hands out nothing that is cut from it: the
	// scratch buffer of a "allocation free" helper belongs to the next taker the moment it is put back
	for _, fn := range p.FuncsIn(redisPkg) {
		if p.isTestFn(fn) {
			continue
		}
		var gets []ssa.Value
		var puts []*ssa.CallCommon
		eachInstr(fn, func(_ *ssa.BasicBlock, _ int, in ssa.Instruction) {
			cc := callOf(in)
			if cc == nil {
				return
			}
			if g := calleeFn(cc); g != nil {
				switch g.String() {
				case "(*sync.Pool).Get":
					if v, ok := in.(ssa.Value); ok {
						gets = append(gets, v)
					}
				case "(*sync.Pool).Put":
					puts = append(puts, cc)
				}
			}
		})
		if len(gets) == 0 || len(puts) == 0 {
			continue
		}
		fromGet := func(v ssa.Value) bool {
			return derives(v, func(x ssa.Value) bool {
				for _, g := range gets {
					if x == g {
						return true
					}
				}
				return false
			})
		}
		putsBack := false
		for _, pc := range puts {
			if len(pc.Args) == 2 && fromGet(pc.Args[1]) {
				putsBack = true
			}
		}
		if !putsBack {
			continue
		}
		nr := 0
		eachInstr(fn, func(_ *ssa.BasicBlock, _ int, in ssa.Instruction) {
			ret, ok := in.(*ssa.Return)
			if !ok {
				return
			}
			for _, v := range returnedValues(ret) {
				switch v.Type().Underlying().(type) {
				case *types.Slice, *types.Pointer:
				default:
					continue
				}
				nr++
				n++
				c.Check(!fromGet(v), rule, fmt.Sprintf("%s result#%d is not cut from the pooled object it gives back", fnKey(fn), nr), ret.Pos(), "the result does not derive from the pooled object", "the function returns memory of an object it has already put back into the pool: the next taker - another goroutine - overwrites it while the caller still reads it (a command name folded in a pooled scratch buffer is looked up as the name another connection is folding: an unsupported command finds a handler, a write is classified read-only)")
			}
		})
	}
	for _, fn := range p.FuncsIn(redisPkg) {
		if p.isTestFn(fn) || pooledCtor[fn] {
			continue
		}
		var bufs []ssa.Value
		eachInstr(fn, func(_ *ssa.BasicBlock, _ int, in ssa.Instruction) {
			if call, ok := in.(*ssa.Call); ok {
				if g := calleeFn(call.Common()); g != nil && pooledCtor[g] {
					bufs = append(bufs, call)
				}
			}
		})
		if len(bufs) == 0 {
			continue
		}
		eachInstr(fn, func(_ *ssa.BasicBlock, _ int, in ssa.Instruction) {
			call, ok := in.(*ssa.Call)
			if !ok {
				return
			}
			g := calleeFn(call.Common())
			if g == nil || g.String() != "(*bytes.Buffer).Bytes" {
				return
			}
			// the receiver is (the embedded buffer of) a pooled wrapper of this function
			fromPool := derives(call.Call.Args[0], func(v ssa.Value) bool {
				for _, b := range bufs {
					if v == b {
						return true
					}
				}
				return false
			})
			if !fromPool {
				return
			}
			n++
			site := fmt.Sprintf("%s pooled bytes#%d are only copied out", fnKey(fn), n)
			var escape ssa.Instruction
			var visit func(v ssa.Value, depth int)
			visit = func(v ssa.Value, depth int) {
				if escape != nil || depth > 4 {
					return
				}
				for _, r := range *v.Referrers() {
					switch x := r.(type) {
					case *ssa.Call:
						if isBuiltin(x, "len") || isBuiltin(x, "cap") {
							continue
						}
						if isBuiltin(x, "copy") && len(x.Call.Args) == 2 && x.Call.Args[1] == v && x.Call.Args[0] != v {
							continue
						}
						if isBuiltin(x, "append") && len(x.Call.Args) == 2 && x.Call.Args[1] == v && x.Call.Args[0] != v {
							continue
						}
						if h := calleeFn(x.Common()); h != nil && !isModFn(h) {
							continue // standard library: writers and decoders do not retain their argument
						}
						if x.Call.IsInvoke() {
							if nm := x.Call.Method.Name(); nm == "Write" || nm == "Decode" {
								continue
							}
						}
						escape = x
					case *ssa.Slice:
						visit(x, depth+1)
					case *ssa.Convert:
						if isStringVal(x) {
							continue // copies
						}
						visit(x, depth+1)
					case *ssa.ChangeType:
						visit(x, depth+1)
					case *ssa.IndexAddr, *ssa.Index, *ssa.DebugRef:
						continue
					case *ssa.Phi:
						visit(x, depth+1)
					default:
						if in2, ok := r.(ssa.Instruction); ok {
							escape = in2
						}
					}
				}
			}
			visit(call, 0)
			if escape != nil {
				nbad++
				c.Fail(rule, site, escape.Pos(), "the bytes of a pooled buffer leave the function that releases the buffer ("+p.Pos(escape.Pos())+"): the array goes back to the pool and the next user - another HOTKEY, or the compression of any request - overwrites it before the session writer encodes the reply, so the client reads a report (or a value) assembled from someone else's bytes")
			} else {
				c.OK(rule, site, call.Pos(), "the aliasing slice is only measured or copied out")
			}
		})
	}
	if n == 0 {
		c.OK(rule, "no bytes taken from a pooled buffer", token.NoPos, "no function of proc/redis reads the bytes of a buffer it took from a pool")
	}
	_ = nbad
}

// checkLookupInsertAtomic (C19.R12): "is this key tracked" and "start tracking it" are one critical section. If the lookup
// in the item map and the insertion it decides run under two acquisitions of the counter's mutex, two writers that miss
// the same new key both insert it: the map holds one entry, the list two - the key under-reports its accesses and an
// eviction deletes the live entry, so the counter tracks more keys than its capacity.
func checkLookupInsertAtomic(c *Ctx, rule string) {
	p := c.P
	items := p.Field(hkPkg, "Counter", "items")
	cmu := p.Field(hkPkg, "Counter", "mu")
	incr := p.Func(hkPkg, "(*Counter).Incr")
	if items == nil || cmu == nil || incr == nil {
		c.Unresolved(rule, "Counter.items / Counter.mu / Counter.Incr")
		return
	}
	// the acquisition that covers an instruction: the Lock of the mutex in the same function that dominates it with no
	// unlock in between, or - when the function is entered with the lock held - the one that covers its single call site
	var acqOf func(in ssa.Instruction, depth int) ssa.Instruction
	acqOf = func(in ssa.Instruction, depth int) ssa.Instruction {
		fn := in.Parent()
		var acq ssa.Instruction
		eachInstr(fn, func(_ *ssa.BasicBlock, _ int, x ssa.Instruction) {
			fld, op := mutexOp(x)
			if fld != cmu || (op != "Lock" && op != "RLock") {
				return
			}
			if _, isDefer := x.(*ssa.Defer); isDefer || !instrDominates(x, in) {
				return
			}
			// no unlock between
			if findPath(posOf(x), pathQuery{target: func(y ssa.Instruction) bool { return y == in }, avoid: func(y ssa.Instruction) bool {
				f2, op2 := mutexOp(y)
				_, isDefer := y.(*ssa.Defer)
				return !isDefer && f2 == cmu && (op2 == "Unlock" || op2 == "RUnlock")
			}}) != nil {
				acq = x
			}
		})
		if acq != nil || depth > 3 {
			return acq
		}
		var sites []ssa.Instruction
		for _, ed := range p.callersOf(fn) {
			if !p.isTestFn(ed.Caller.Func) {
				sites = append(sites, ed.Site)
			}
		}
		if len(sites) == 1 {
			return acqOf(sites[0], depth+1)
		}
		return nil
	}
	cone := append([]*ssa.Function{incr}, staticCalleesDeep(incr, 3)...)
	var lookups, inserts []ssa.Instruction
	for _, fn := range cone {
		if fn.Blocks == nil || fnPkg(fn) != fnPkg(incr) {
			continue
		}
		eachInstr(fn, func(_ *ssa.BasicBlock, _ int, in ssa.Instruction) {
			switch x := in.(type) {
			case *ssa.Lookup:
				if f, _ := loadedField(x.X); f == items {
					lookups = append(lookups, in)
				}
			case *ssa.MapUpdate:
				if f, _ := loadedField(x.Map); f == items {
					inserts = append(inserts, in)
				}
			}
		})
	}
	if len(lookups) == 0 || len(inserts) == 0 {
		c.Undecided(rule, "lookup and insertion of a key", incr.Pos(), "cannot find the map lookup and the insertion reachable from Incr")
		return
	}
	ok := true
	why := ""
	for _, l := range lookups {
		for _, u := range inserts {
			al, au := acqOf(l, 0), acqOf(u, 0)
			if al == nil || au == nil {
				ok, why = false, "the lookup or the insertion is not covered by an acquisition of the counter's mutex"
			} else if al != au {
				ok, why = false, "the lookup ("+p.Pos(l.Pos())+") and the insertion ("+p.Pos(u.Pos())+") are covered by different acquisitions of the counter's mutex ("+p.Pos(al.Pos())+" and "+p.Pos(au.Pos())+")"
			}
		}
	}
	c.Check(ok, rule, "lookup and insertion of a key are one critical section", incr.Pos(), "one acquisition of Counter.mu covers the lookup and the insertion", why+": two writers that access the same new key at the same moment both miss and both insert it - the key under-reports its accesses, and evicting the duplicate deletes the live map entry so that more keys than the capacity are tracked")
}

// checkListSurgery (C19.R13): the frequency buckets form a doubly linked list that eviction walks from its head. The
// three primitives are executed symbolically (symheap.go) over all nil/non-nil shapes of the neighbours and their final
// heaps compared with the specification of a doubly linked list: after n.InsertAfterMe(o): n.next = o, o.prev = n,
// o.next = X, X.prev = o (X the old successor, if any); symmetrically for InsertBeforeMe; after n.Free() the neighbours
// point at each other and n points nowhere.
func checkListSurgery(c *Ctx, rule string) {
	p := c.P
	type want struct{ cell, val, ifNonNil string }
	specs := map[string][]want{
		"(*freqNode).InsertAfterMe":  {{"n.next", "o", ""}, {"o.prev", "n", ""}, {"o.next", "n.next@0", ""}, {"n.next@0.prev", "o", "n.next@0"}},
		"(*freqNode).InsertBeforeMe": {{"n.prev", "o", ""}, {"o.next", "n", ""}, {"o.prev", "n.prev@0", ""}, {"n.prev@0.next", "o", "n.prev@0"}},
		"(*freqNode).Free":           {{"n.prev", "nil", ""}, {"n.next", "nil", ""}, {"n.prev@0.next", "n.next@0", "n.prev@0"}, {"n.next@0.prev", "n.prev@0", "n.next@0"}},
	}
	var names []string
	for k := range specs {
		names = append(names, k)
	}
	sort.Strings(names)
	for _, name := range names {
		fn := p.Func(hkPkg, name)
		if fn == nil {
			c.Unresolved(rule, name)
			continue
		}
		// parameter names of the specification are positional
		ren := map[string]string{}
		if len(fn.Params) >= 1 {
			ren[fn.Params[0].Name()] = "n"
		}
		if len(fn.Params) >= 2 {
			ren[fn.Params[1].Name()] = "o"
		}
		norm := func(s string) string {
			for from, to := range ren {
				if s == from || strings.HasPrefix(s, from+".") {
					s = to + s[len(from):]
				}
			}
			return s
		}
		finals, why := symExec(fn)
		site := name + " keeps the list doubly linked"
		if why != "" {
			c.Undecided(rule, site, fn.Pos(), "outside the symbolic fragment: "+why)
			continue
		}
		bad := ""
		for _, st := range finals {
			heap := map[string]string{}
			for k, v := range st.heap {
				heap[norm(k)] = norm(v)
			}
			nilOf := map[string]bool{}
			for k, v := range st.isNil {
				nilOf[norm(k)] = v
			}
			get := func(cell string) string {
				if v, ok := heap[cell]; ok {
					return v
				}
				return cell + "@0"
			}
			for _, w := range specs[name] {
				if w.ifNonNil != "" {
					if isN, known := nilOf[w.ifNonNil]; known && isN {
						continue
					}
					if _, read := heap[strings.TrimSuffix(w.ifNonNil, "@0")]; !read && !strings.Contains(st.describe(), w.ifNonNil) {
						// the neighbour was never looked at on this path: it must at least have been tested
					}
				}
				val := w.val
				if nilOf[val] && val != "nil" {
					val = "nil"
				}
				got := get(w.cell)
				if nilOf[got] && got != "nil" {
					got = "nil"
				}
				if got != val && bad == "" {
					bad = fmt.Sprintf("%s ends as %s, the list needs %s (final heap: %s)", w.cell, got, w.val, st.describe())
				}
			}
		}
		c.Check(bad == "", rule, site, fn.Pos(), fmt.Sprintf("%d paths executed symbolically, every final heap matches the specification", len(finals)), bad+": a bucket with a wrong back link is unlinked through it later, the buckets behind it are cut off from the head and eviction no longer removes a key with the lowest count")
	}
}
