package main

import (
	"fmt"
	"go/constant"
	"go/token"
	"go/types"
	"sort"
	"strings"

	"golang.org/x/tools/go/callgraph"
	"golang.org/x/tools/go/ssa"
)

// ---------------------------------------------------------------- basic walking

func eachInstr(fn *ssa.Function, f func(b *ssa.BasicBlock, i int, in ssa.Instruction)) {
	for _, b := range fn.Blocks {
		for i, in := range b.Instrs {
			f(b, i, in)
		}
	}
}

// withAnon returns fn and all its nested anonymous functions.
func withAnon(fn *ssa.Function) []*ssa.Function {
	return withAnon1(fn, map[*ssa.Function]bool{})
}

// withAnon1: fn, its closures, and the methods of its package whose method value (r.m) it creates - a method value
// handed on as a callback is a closure over the receiver spelled differently.
func withAnon1(fn *ssa.Function, seen map[*ssa.Function]bool) []*ssa.Function {
	if seen[fn] {
		return nil
	}
	seen[fn] = true
	out := []*ssa.Function{fn}
	for _, a := range fn.AnonFuncs {
		out = append(out, withAnon1(a, seen)...)
	}
	for _, m := range boundMethodsIn(fn) {
		out = append(out, withAnon1(m, seen)...)
	}
	return out
}

// boundMethodsIn: the declared methods (same package) of which fn creates a bound method value.
func boundMethodsIn(fn *ssa.Function) []*ssa.Function {
	var out []*ssa.Function
	eachInstr(fn, func(_ *ssa.BasicBlock, _ int, in ssa.Instruction) {
		mc, ok := in.(*ssa.MakeClosure)
		if !ok {
			return
		}
		w, ok := mc.Fn.(*ssa.Function)
		if !ok || w.Synthetic == "" || len(mc.Bindings) != 1 {
			return
		}
		mo, _ := w.Object().(*types.Func)
		if mo == nil || fn.Pkg == nil || mo.Pkg() != fn.Pkg.Pkg {
			return
		}
		if m := fn.Prog.FuncValue(mo); m != nil && m.Blocks != nil {
			out = append(out, m)
		}
	})
	return out
}

// topFn returns the outermost enclosing named function.
func topFn(fn *ssa.Function) *ssa.Function {
	for fn.Parent() != nil {
		fn = fn.Parent()
	}
	return fn
}

func deref(t types.Type) types.Type {
	if p, ok := t.Underlying().(*types.Pointer); ok {
		return p.Elem()
	}
	return t
}

func namedOf(t types.Type) *types.Named {
	t = deref(t)
	n, _ := t.(*types.Named)
	return n
}

// typeIs reports whether t (possibly pointer) is the named type pkgpath.name.
func typeIs(t types.Type, pkgpath, name string) bool {
	n := namedOf(t)
	if n == nil || n.Obj() == nil || n.Obj().Pkg() == nil {
		return false
	}
	return n.Obj().Name() == name && n.Obj().Pkg().Path() == pkgpath
}

func modType(t types.Type, rel, name string) bool { return typeIs(t, modPath+"/"+rel, name) }

// ---------------------------------------------------------------- calls

// callOf returns the CallCommon of a Call/Go/Defer instruction.
func callOf(in ssa.Instruction) *ssa.CallCommon {
	if ci, ok := in.(ssa.CallInstruction); ok {
		return ci.Common()
	}
	return nil
}

// calleeFn returns the static callee (function, method, or closure literal).
func calleeFn(cc *ssa.CallCommon) *ssa.Function {
	if cc == nil {
		return nil
	}
	if f := cc.StaticCallee(); f != nil {
		return f
	}
	return nil
}

// calleeName gives a printable callee: fn.String() for static callees,
// "invoke Iface.Method" for interface calls, "dynamic" otherwise.
func calleeName(cc *ssa.CallCommon) string {
	if cc == nil {
		return ""
	}
	if f := calleeFn(cc); f != nil {
		return f.String()
	}
	if cc.IsInvoke() {
		return "invoke " + types.TypeString(cc.Value.Type(), nil) + "." + cc.Method.Name()
	}
	if b, ok := cc.Value.(*ssa.Builtin); ok {
		return "builtin " + b.Name()
	}
	return "dynamic"
}

// isCallTo matches a static call to the function whose String() is name
// (e.g. "(*sync.Mutex).Lock", "strings.Split").
func isCallTo(in ssa.Instruction, names ...string) bool {
	cc := callOf(in)
	if cc == nil {
		return false
	}
	f := calleeFn(cc)
	if f == nil {
		return false
	}
	s := f.String()
	for _, n := range names {
		if s == n {
			return true
		}
	}
	return false
}

// isCallToFn matches a static call to exactly fn.
func isCallToFn(in ssa.Instruction, fns ...*ssa.Function) bool {
	cc := callOf(in)
	if cc == nil {
		return false
	}
	f := calleeFn(cc)
	if f == nil || f.Synthetic != "" {
		// a method value called through a local
		f, _ = methodCall(cc)
	}
	if f == nil {
		return false
	}
	for _, g := range fns {
		if g != nil && f == g {
			return true
		}
	}
	return false
}

// isMethodCall matches static or invoke calls of a method with this name on a
// receiver whose (pointer-stripped) named type is pkgpath.typ.
func isMethodCall(in ssa.Instruction, pkgpath, typ, method string) bool {
	cc := callOf(in)
	if cc == nil {
		return false
	}
	if cc.IsInvoke() {
		return cc.Method.Name() == method && typeIs(cc.Value.Type(), pkgpath, typ)
	}
	f := calleeFn(cc)
	if f == nil || f.Signature.Recv() == nil || f.Name() != method {
		return false
	}
	return typeIs(f.Signature.Recv().Type(), pkgpath, typ)
}

// isBuiltin matches a call of the named builtin (close, len, append, copy, delete, panic...).
func isBuiltin(in ssa.Instruction, name string) bool {
	cc := callOf(in)
	if cc == nil {
		return false
	}
	b, ok := cc.Value.(*ssa.Builtin)
	return ok && b.Name() == name
}

// callees resolves a call through the VTA graph.
func (p *Prog) callees(in ssa.CallInstruction) []*ssa.Function {
	if f := in.Common().StaticCallee(); f != nil {
		return []*ssa.Function{f}
	}
	n := p.CG().Nodes[in.Parent()]
	if n == nil {
		return nil
	}
	var out []*ssa.Function
	seen := map[*ssa.Function]bool{}
	for _, e := range n.Out {
		if e.Site == in && !seen[e.Callee.Func] {
			seen[e.Callee.Func] = true
			out = append(out, e.Callee.Func)
		}
	}
	sort.Slice(out, func(i, j int) bool { return out[i].String() < out[j].String() })
	return out
}

// callersOf lists the call sites (VTA) of fn, excluding _test.go callers.
func (p *Prog) callersOf(fn *ssa.Function) []*callgraph.Edge {
	n := p.CG().Nodes[fn]
	if n == nil {
		return nil
	}
	var out []*callgraph.Edge
	for _, e := range n.In {
		if e.Caller.Func == nil || p.isTestFn(e.Caller.Func) {
			continue
		}
		// method-set wrappers (promoted methods of embedding types) that nobody calls are not callers
		if cf := e.Caller.Func; cf.Synthetic != "" && cf.Parent() == nil {
			if cn := p.CG().Nodes[cf]; cn != nil {
				live := false
				for _, in2 := range cn.In {
					if in2.Caller.Func != nil && !p.isTestFn(in2.Caller.Func) {
						live = true
					}
				}
				if !live {
					continue
				}
			}
		}
		out = append(out, e)
	}
	sort.Slice(out, func(i, j int) bool {
		a, b := fnKey(out[i].Caller.Func), fnKey(out[j].Caller.Func)
		if a != b {
			return a < b
		}
		return out[i].Pos() < out[j].Pos()
	})
	return out
}

// isModFn: function belongs to the analysed module.
func isModFn(f *ssa.Function) bool {
	pk := fnPkg(f)
	return pk != nil && strings.HasPrefix(pk.Pkg.Path(), modPath)
}

// reachable computes the set of module functions reachable from roots in the VTA graph.
// Functions outside the module are leaves (their bodies are not followed: following
// sync.Once.Do or fmt into every callback of the program makes everything reach
// everything); a module function or closure passed as an argument to a non-module callee
// is treated as called by the caller. stop(fn) prunes (fn is included, its callees are
// not followed).
func (p *Prog) reachable(roots []*ssa.Function, stop func(*ssa.Function) bool) map[*ssa.Function]bool {
	seen := map[*ssa.Function]bool{}
	var work []*ssa.Function
	push := func(g *ssa.Function) {
		if g != nil && !seen[g] {
			seen[g] = true
			work = append(work, g)
		}
	}
	for _, r := range roots {
		push(r)
	}
	cg := p.CG()
	for len(work) > 0 {
		f := work[len(work)-1]
		work = work[:len(work)-1]
		if stop != nil && stop(f) {
			continue
		}
		if !isModFn(f) && !(f.Synthetic != "" && f.Blocks != nil) {
			continue // synthetic wrappers (bound methods, thunks) are followed through
		}
		n := cg.Nodes[f]
		if n != nil {
			for _, e := range n.Out {
				push(e.Callee.Func)
			}
		}
		// function values handed to callees outside the module (sync.Once.Do, sort.Slice, time.AfterFunc ...)
		if f.Blocks != nil {
			eachInstr(f, func(b *ssa.BasicBlock, i int, in ssa.Instruction) {
				cc := callOf(in)
				if cc == nil {
					return
				}
				if g := calleeFn(cc); g != nil && isModFn(g) {
					return
				}
				for _, a := range cc.Args {
					if g := funcValue(a); g != nil {
						if g.Synthetic != "" && len(g.Blocks) > 0 { // bound-method wrapper
							eachInstr(g, func(_ *ssa.BasicBlock, _ int, in2 ssa.Instruction) {
								if c2 := callOf(in2); c2 != nil {
									push(calleeFn(c2))
								}
							})
						}
						push(g)
					}
				}
			})
		}
	}
	return seen
}

// ---------------------------------------------------------------- values

// stripConv removes ChangeType/Convert/MakeInterface/ChangeInterface wrappers.
func stripConv(v ssa.Value) ssa.Value {
	for {
		switch x := v.(type) {
		case *ssa.ChangeType:
			v = x.X
		case *ssa.Convert:
			v = x.X
		case *ssa.MakeInterface:
			v = x.X
		case *ssa.ChangeInterface:
			v = x.X
		default:
			return v
		}
	}
}

// fieldAddr: if v is &x.f returns (f, x).
func fieldAddr(v ssa.Value) (*types.Var, ssa.Value) {
	if fa, ok := v.(*ssa.FieldAddr); ok {
		st := deref(fa.X.Type()).Underlying().(*types.Struct)
		return st.Field(fa.Field), fa.X
	}
	return nil, nil
}

// loadedField: if v is a load *(&x.f) or value-field x.f returns (f, x).
func loadedField(v ssa.Value) (*types.Var, ssa.Value) {
	switch x := v.(type) {
	case *ssa.UnOp:
		if x.Op == token.MUL {
			return fieldAddr(x.X)
		}
	case *ssa.Field:
		st := x.X.Type().Underlying().(*types.Struct)
		return st.Field(x.Field), x.X
	}
	return nil, nil
}

func constInt(v ssa.Value) (int64, bool) {
	v = stripConv(v)
	c, ok := v.(*ssa.Const)
	if !ok || c.Value == nil {
		return 0, false
	}
	if c.Value.Kind() != constant.Int {
		return 0, false
	}
	if i, ok := constant.Int64Val(c.Value); ok {
		return i, true
	}
	if u, ok := constant.Uint64Val(c.Value); ok {
		return int64(u), true
	}
	return 0, false
}

func constString(v ssa.Value) (string, bool) {
	v = stripConv(v)
	c, ok := v.(*ssa.Const)
	if !ok || c.Value == nil || c.Value.Kind() != constant.String {
		return "", false
	}
	return constant.StringVal(c.Value), true
}

func isNilConst(v ssa.Value) bool {
	c, ok := v.(*ssa.Const)
	return ok && c.Value == nil
}

// accessPath renders a value as an access path over parameters/free vars/globals,
// e.g. "req.body.Array"; "" if not a pure path. Loads, field selections and
// method calls of trivial getters named in getters are followed.
func accessPath(v ssa.Value, getters map[string]string, depth int) string {
	if depth > 12 {
		return ""
	}
	switch x := v.(type) {
	case *ssa.Parameter:
		return x.Name()
	case *ssa.FreeVar:
		return x.Name()
	case *ssa.Global:
		return x.Name()
	case *ssa.UnOp:
		if x.Op == token.MUL {
			return accessPath(x.X, getters, depth+1)
		}
	case *ssa.FieldAddr:
		f, _ := fieldAddr(x)
		// field of a freshly constructed object that the constructor fills from its argument: alias of the argument
		if call, ok := x.X.(*ssa.Call); ok && getters != nil {
			if g := calleeFn(call.Common()); g != nil {
				if fld, ok := getters["ctor:"+g.String()]; ok && fld == f.Name() && len(call.Call.Args) == 1 {
					return accessPath(call.Call.Args[0], getters, depth+1)
				}
			}
		}
		b := accessPath(x.X, getters, depth+1)
		if b == "" {
			return ""
		}
		return b + "." + f.Name()
	case *ssa.Field:
		b := accessPath(x.X, getters, depth+1)
		if b == "" {
			return ""
		}
		f, _ := loadedField(x)
		return b + "." + f.Name()
	case *ssa.IndexAddr:
		b := accessPath(x.X, getters, depth+1)
		if b == "" {
			return ""
		}
		if c, ok := constInt(x.Index); ok {
			return fmt.Sprintf("%s[%d]", b, c)
		}
		return ""
	case *ssa.Call:
		if f := calleeFn(x.Common()); f != nil && getters != nil {
			if fld, ok := getters[f.String()]; ok && len(x.Call.Args) == 1 {
				// getter applied to a freshly constructed object
				if inner, ok := x.Call.Args[0].(*ssa.Call); ok {
					if g := calleeFn(inner.Common()); g != nil {
						if cf, ok := getters["ctor:"+g.String()]; ok && cf == fld && len(inner.Call.Args) == 1 {
							return accessPath(inner.Call.Args[0], getters, depth+1)
						}
					}
				}
				b := accessPath(x.Call.Args[0], getters, depth+1)
				if b == "" {
					return ""
				}
				return b + "." + fld
			}
		}
		// any other call result is an immutable SSA value: usable as a path root
		return x.Name()
	case *ssa.Extract, *ssa.Phi, *ssa.Lookup, *ssa.TypeAssert, *ssa.Next:
		return v.Name()
	case *ssa.Alloc:
		// a local variable assigned exactly once is as good as an SSA value
		n := 0
		for _, r := range *x.Referrers() {
			if st, ok := r.(*ssa.Store); ok && st.Addr == ssa.Value(x) {
				n++
			}
		}
		if n == 1 {
			// a parameter spilled into a cell because closures capture it is still that parameter
			for _, r := range *x.Referrers() {
				if st, ok := r.(*ssa.Store); ok && st.Addr == ssa.Value(x) {
					if prm, isP := st.Val.(*ssa.Parameter); isP {
						return prm.Name()
					}
				}
			}
			if x.Comment != "" {
				return "var:" + x.Comment
			}
		}
	case *ssa.MakeClosure:
	}
	return ""
}

// ---------------------------------------------------------------- paths

type ipos struct {
	b *ssa.BasicBlock
	i int
}

func posOf(in ssa.Instruction) ipos {
	b := in.Block()
	for i, x := range b.Instrs {
		if x == in {
			return ipos{b, i}
		}
	}
	return ipos{b, 0}
}

// instrDominates: a executes before b on every path reaching b.
func instrDominates(a, b ssa.Instruction) bool {
	if a.Block() == b.Block() {
		return posOf(a).i < posOf(b).i
	}
	return a.Block().Dominates(b.Block())
}

type pathQuery struct {
	// target: reaching an instruction for which target returns true ends the search with success.
	target func(ssa.Instruction) bool
	// avoid: instructions that block a path.
	avoid func(ssa.Instruction) bool
	// edge filter: may veto following edge from block b to successor index k.
	edge func(b *ssa.BasicBlock, k int) bool
}

// findPath searches a CFG path starting just after `from` (or at block entry if from.i<0)
// to an instruction satisfying target without crossing an instruction satisfying avoid.
// Returns the block sequence of one such path, or nil.
func findPath(from ipos, q pathQuery) []*ssa.BasicBlock {
	type st struct {
		b    *ssa.BasicBlock
		prev *st
	}
	scan := func(b *ssa.BasicBlock, start int) (hit bool, blocked bool) {
		for i := start; i < len(b.Instrs); i++ {
			in := b.Instrs[i]
			if q.avoid != nil && q.avoid(in) {
				return false, true
			}
			if q.target(in) {
				return true, false
			}
		}
		return false, false
	}
	mk := func(s *st) []*ssa.BasicBlock {
		var out []*ssa.BasicBlock
		for ; s != nil; s = s.prev {
			out = append([]*ssa.BasicBlock{s.b}, out...)
		}
		return out
	}
	first := &st{b: from.b}
	hit, blocked := scan(from.b, from.i+1)
	if hit {
		return mk(first)
	}
	if blocked {
		return nil
	}
	seen := map[*ssa.BasicBlock]bool{}
	work := []*st{first}
	for len(work) > 0 {
		s := work[0]
		work = work[1:]
		for k, nb := range s.b.Succs {
			if q.edge != nil && !q.edge(s.b, k) {
				continue
			}
			if seen[nb] {
				continue
			}
			seen[nb] = true
			ns := &st{b: nb, prev: s}
			hit, blocked := scan(nb, 0)
			if hit {
				return mk(ns)
			}
			if blocked {
				continue
			}
			work = append(work, ns)
		}
	}
	return nil
}

func isReturn(in ssa.Instruction) bool { _, ok := in.(*ssa.Return); return ok }
func isExit(in ssa.Instruction) bool {
	switch in.(type) {
	case *ssa.Return, *ssa.Panic:
		return true
	}
	return false
}

// escapesWithout: is there a path from `from` to a Return that does not cross `must`?
// Returns the offending path or nil when every path crosses must.
func escapesWithout(from ipos, must func(ssa.Instruction) bool) []*ssa.BasicBlock {
	return findPath(from, pathQuery{target: isReturn, avoid: must})
}

func entryPos(fn *ssa.Function) ipos { return ipos{fn.Blocks[0], -1} }

func (p *Prog) pathString(path []*ssa.BasicBlock) string {
	var parts []string
	for _, b := range path {
		line := "-"
		for _, in := range b.Instrs {
			if in.Pos().IsValid() {
				line = fmt.Sprint(p.Fset.Position(in.Pos()).Line)
				break
			}
		}
		c := b.Comment
		if c == "" {
			c = "b"
		}
		parts = append(parts, fmt.Sprintf("%d:%s@L%s", b.Index, c, line))
	}
	return strings.Join(parts, " -> ")
}

// mustCallOnAllPaths: every path from fn entry to a Return crosses an instruction
// matching m, where a call to a module function g counts if g itself must (depth-bounded),
// and a Defer of such a call counts at the point of the defer statement.
func (p *Prog) mustOnAllPaths(fn *ssa.Function, m func(ssa.Instruction) bool, depth int) (bool, []*ssa.BasicBlock) {
	if fn == nil || fn.Blocks == nil {
		return false, nil
	}
	mm := p.deepMatcher(m, depth)
	path := escapesWithout(entryPos(fn), mm)
	return path == nil, path
}

// deepMatcher lifts an instruction matcher through calls (static callee or closure)
// whose every path matches, to the given depth; defers count where they are pushed.
func (p *Prog) deepMatcher(m func(ssa.Instruction) bool, depth int) func(ssa.Instruction) bool {
	memo := map[*ssa.Function]int{} // 0 unknown, 1 in progress/false, 2 true
	var mm func(d int) func(ssa.Instruction) bool
	mm = func(d int) func(ssa.Instruction) bool {
		return func(in ssa.Instruction) bool {
			if m(in) {
				return true
			}
			if d <= 0 {
				return false
			}
			cc := callOf(in)
			if cc == nil {
				return false
			}
			if _, isGo := in.(*ssa.Go); isGo {
				return false
			}
			var g *ssa.Function
			if f := calleeFn(cc); f != nil {
				g = f
			} else if mc, ok := cc.Value.(*ssa.MakeClosure); ok {
				g, _ = mc.Fn.(*ssa.Function)
			}
			if g == nil || g.Blocks == nil {
				return false
			}
			switch memo[g] {
			case 1:
				return false
			case 2:
				return true
			}
			memo[g] = 1
			ok := escapesWithout(entryPos(g), mm(d-1)) == nil
			if ok {
				memo[g] = 2
			} else {
				memo[g] = 0 // depth-limited result: do not cache negatives
				delete(memo, g)
			}
			return ok
		}
	}
	return mm(depth)
}

// ---------------------------------------------------------------- channels

type chanOpKind int

const (
	opSend chanOpKind = iota
	opRecv
	opClose
	opLen
	opOther
)

func (k chanOpKind) String() string {
	return [...]string{"send", "recv", "close", "len", "other"}[k]
}

type chanOp struct {
	Kind     chanOpKind
	In       ssa.Instruction
	Fn       *ssa.Function
	InSelect *ssa.Select  // non-nil when the op is a case of a select
	Blocking bool         // select without default, or plain op
	Sel      []*types.Var // for select: fields of the other cases' channels (nil entries for non-field channels)
	Val      ssa.Value    // value sent (send)
	Base     ssa.Value    // struct value the field belongs to
}

// chanFieldOf: if v is the channel loaded from struct field f returns f.
func chanFieldOf(v ssa.Value) (*types.Var, ssa.Value) {
	v = stripChanConv(v)
	f, base := loadedField(v)
	if f != nil {
		// x.F.ch where F is a one-channel wrapper: the channel is identified by F
		if of, ob := wrapperOwner(base); of != nil && chanWrapperInner(of.Type()) == f {
			return of, ob
		}
		return f, base
	}
	// trivial getter call returning a field
	if c, ok := v.(*ssa.Call); ok {
		if g := calleeFn(c.Common()); g != nil {
			if gf := trivialGetterField(g); gf != nil && len(c.Call.Args) >= 1 {
				// x.F.getter() where F is a one-channel wrapper: the channel is identified by F
				if of, ob := wrapperOwner(c.Call.Args[0]); of != nil && chanWrapperInner(of.Type()) == gf {
					return of, ob
				}
				return gf, c.Call.Args[0]
			}
		}
	}
	// "the field's channel or nil" (a select case switched off by a nil channel): the channel of that field
	if ph, ok := v.(*ssa.Phi); ok {
		var pf *types.Var
		var pb ssa.Value
		for _, ed := range ph.Edges {
			if isNilConst(ed) || ed == ssa.Value(ph) {
				continue
			}
			if _, isPhi := ed.(*ssa.Phi); isPhi {
				return nil, nil
			}
			ef, eb := chanFieldOf(ed)
			if ef == nil || (pf != nil && ef != pf) {
				return nil, nil
			}
			pf, pb = ef, eb
		}
		return pf, pb
	}
	return nil, nil
}

// stripChanConv removes the direction conversions of a channel value (chan T -> <-chan T).
func stripChanConv(v ssa.Value) ssa.Value {
	for {
		ct, ok := v.(*ssa.ChangeType)
		if !ok {
			return v
		}
		if _, isCh := ct.Type().Underlying().(*types.Chan); !isCh {
			return v
		}
		v = ct.X
	}
}

// chanWrapperInner: t (or *t) is a module struct with exactly one channel-typed field (next to e.g. a sync.Once):
// a small wrapper around one channel. Returns that field.
func chanWrapperInner(t types.Type) *types.Var {
	nt := namedOf(deref(t))
	if nt == nil || nt.Obj().Pkg() == nil || !strings.HasPrefix(nt.Obj().Pkg().Path(), modPath) {
		return nil
	}
	st, ok := nt.Underlying().(*types.Struct)
	if !ok || st.NumFields() > 3 {
		return nil
	}
	var inner *types.Var
	for i := 0; i < st.NumFields(); i++ {
		if _, isCh := st.Field(i).Type().Underlying().(*types.Chan); isCh {
			if inner != nil {
				return nil
			}
			inner = st.Field(i)
		}
	}
	return inner
}

// wrapperOwner: v designates a field F of wrapper type of some struct value x (&x.F, or the loaded x.F): returns (F, x).
func wrapperOwner(v ssa.Value) (*types.Var, ssa.Value) {
	if f, base := fieldAddr(v); f != nil && chanWrapperInner(f.Type()) != nil {
		return f, base
	}
	if f, base := loadedField(v); f != nil && chanWrapperInner(f.Type()) != nil {
		return f, base
	}
	// a value receiver spilled into a cell: *t where t = local holding the loaded field
	if u, ok := v.(*ssa.Alloc); ok {
		for _, r := range *u.Referrers() {
			if st, ok := r.(*ssa.Store); ok && st.Addr == ssa.Value(u) {
				if f, base := loadedField(st.Val); f != nil && chanWrapperInner(f.Type()) != nil {
					return f, base
				}
			}
		}
	}
	return nil, nil
}

// trivialGetterField: a function whose body is "return recv.f" returns f.
func trivialGetterField(g *ssa.Function) *types.Var {
	if g == nil || len(g.Blocks) != 1 {
		return nil
	}
	b := g.Blocks[0]
	if len(b.Instrs) == 0 {
		return nil
	}
	ret, ok := b.Instrs[len(b.Instrs)-1].(*ssa.Return)
	if !ok || len(ret.Results) != 1 {
		return nil
	}
	for _, in := range b.Instrs[:len(b.Instrs)-1] {
		switch in.(type) {
		case *ssa.FieldAddr, *ssa.UnOp, *ssa.Field, *ssa.DebugRef, *ssa.ChangeType:
		default:
			return nil
		}
	}
	r := returnedValues(ret)[0]
	if ct, ok := r.(*ssa.ChangeType); ok { // chan -> <-chan
		r = ct.X
	}
	f, base := loadedField(r)
	if f == nil {
		return nil
	}
	// recv.F.ch with F a one-channel wrapper: the getter returns "the channel F"
	if of, ob := wrapperOwner(base); of != nil && chanWrapperInner(of.Type()) == f {
		f, base = of, ob
	}
	if _, ok := base.(*ssa.Parameter); !ok {
		return nil
	}
	return f
}

// chanOpsOnField finds every operation on the channel stored in field f, program-wide
// (module functions, tests excluded).
func (p *Prog) chanOpsOnField(f *types.Var) []chanOp {
	var out []chanOp
	inner := chanWrapperInner(f.Type())
	for _, fn := range p.SrcFns {
		if p.isTestFn(fn) {
			continue
		}
		eachInstr(fn, func(b *ssa.BasicBlock, i int, in ssa.Instruction) {
			// a method of the one-channel wrapper called on this field: what the method does to its channel happens
			// here, to this field
			if inner != nil {
				if cc := callOf(in); cc != nil && len(cc.Args) >= 1 {
					if m := calleeFn(cc); m != nil && m.Blocks != nil && m.Signature.Recv() != nil && chanWrapperInner(m.Signature.Recv().Type()) == inner {
						if of, ob := wrapperOwner(cc.Args[0]); of == f {
							for _, mf := range withAnon(m) {
								eachInstr(mf, func(_ *ssa.BasicBlock, _ int, y ssa.Instruction) {
									switch z := y.(type) {
									case *ssa.Send:
										if g, _ := loadedField(stripChanConv(z.Chan)); g == inner {
											out = append(out, chanOp{Kind: opSend, In: in, Fn: fn, Blocking: true, Base: ob})
										}
									case *ssa.UnOp:
										if z.Op == token.ARROW {
											if g, _ := loadedField(stripChanConv(z.X)); g == inner {
												out = append(out, chanOp{Kind: opRecv, In: in, Fn: fn, Blocking: true, Base: ob})
											}
										}
									case *ssa.Call, *ssa.Defer:
										if isBuiltin(y, "close") {
											if g, _ := loadedField(stripChanConv(callOf(y).Args[0])); g == inner {
												out = append(out, chanOp{Kind: opClose, In: in, Fn: fn, Base: ob})
											}
										}
									}
								})
							}
						}
					}
				}
			}
			// a method of a named channel type called on this field: what the method does to its receiver happens to
			// this field
			if nt := namedOf(f.Type()); nt != nil && inner == nil {
				if _, isCh := nt.Underlying().(*types.Chan); isCh {
					if cc := callOf(in); cc != nil && len(cc.Args) >= 1 {
						if m := calleeFn(cc); m != nil && m.Blocks != nil && m.Signature.Recv() != nil && namedOf(m.Signature.Recv().Type()) == nt && len(m.Params) > 0 {
							if g, ob := loadedField(stripChanConv(cc.Args[0])); g == f {
								recv := ssa.Value(m.Params[0])
								eachInstr(m, func(_ *ssa.BasicBlock, _ int, y ssa.Instruction) {
									switch z := y.(type) {
									case *ssa.Send:
										if stripChanConv(z.Chan) == recv {
											out = append(out, chanOp{Kind: opSend, In: in, Fn: fn, Blocking: true, Val: z.X, Base: ob})
										}
									case *ssa.UnOp:
										if z.Op == token.ARROW && stripChanConv(z.X) == recv {
											out = append(out, chanOp{Kind: opRecv, In: in, Fn: fn, Blocking: true, Base: ob})
										}
									case *ssa.Select:
										for _, st := range z.States {
											if stripChanConv(st.Chan) == recv {
												kind := opRecv
												if st.Dir == types.SendOnly {
													kind = opSend
												}
												out = append(out, chanOp{Kind: kind, In: in, Fn: fn, InSelect: z, Blocking: z.Blocking, Val: st.Send, Base: ob})
											}
										}
									case *ssa.Call, *ssa.Defer:
										if isBuiltin(y, "close") && stripChanConv(callOf(y).Args[0]) == recv {
											out = append(out, chanOp{Kind: opClose, In: in, Fn: fn, Base: ob})
										}
									}
								})
							}
						}
					}
				}
			}
			switch x := in.(type) {
			case *ssa.Send:
				if g, base := chanFieldOf(x.Chan); g == f {
					out = append(out, chanOp{Kind: opSend, In: in, Fn: fn, Blocking: true, Val: x.X, Base: base})
				}
			case *ssa.UnOp:
				if x.Op == token.ARROW {
					if g, base := chanFieldOf(x.X); g == f {
						out = append(out, chanOp{Kind: opRecv, In: in, Fn: fn, Blocking: true, Base: base})
					}
				}
			case *ssa.Select:
				var fields []*types.Var
				for _, s := range x.States {
					g, _ := chanFieldOf(s.Chan)
					fields = append(fields, g)
				}
				for k, s := range x.States {
					if fields[k] == f {
						kind := opRecv
						if s.Dir == types.SendOnly {
							kind = opSend
						}
						var others []*types.Var
						for j, g := range fields {
							if j != k {
								others = append(others, g)
							}
						}
						_, base := chanFieldOf(s.Chan)
						out = append(out, chanOp{Kind: kind, In: in, Fn: fn, InSelect: x, Blocking: x.Blocking, Sel: others, Val: s.Send, Base: base})
					}
				}
			case *ssa.Call, *ssa.Defer:
				xc := callOf(in)
				if b, ok := xc.Value.(*ssa.Builtin); ok && len(xc.Args) == 1 {
					x := struct{ Call *ssa.CallCommon }{xc}
					if g, base := chanFieldOf(x.Call.Args[0]); g == f {
						k := opOther
						switch b.Name() {
						case "close":
							k = opClose
						case "len", "cap":
							k = opLen
						}
						out = append(out, chanOp{Kind: k, In: in, Fn: fn, Base: base})
					}
				}
			}
		})
	}
	return out
}

// selectCaseBlock returns, for select instruction sel and case index k, the block
// that runs when case k fires (nil if the shape is not the standard lowering).
func selectCaseBlock(sel *ssa.Select, k int) *ssa.BasicBlock {
	// standard lowering: idx = extract sel #0; chain of "if idx == j goto caseJ else next"
	var idx ssa.Value
	for _, r := range *sel.Referrers() {
		if e, ok := r.(*ssa.Extract); ok && e.Index == 0 {
			idx = e
		}
	}
	if idx == nil {
		return nil
	}
	for _, r := range *idx.Referrers() {
		bo, ok := r.(*ssa.BinOp)
		if !ok || bo.Op != token.EQL {
			continue
		}
		c, ok := constInt(bo.Y)
		if !ok || int(c) != k {
			continue
		}
		for _, u := range *bo.Referrers() {
			if iff, ok := u.(*ssa.If); ok {
				return iff.Block().Succs[0]
			}
		}
	}
	return nil
}

// selectDefaultBlock returns the block for the default arm of a non-blocking select
// (the final else of the comparison chain).
func selectDefaultBlock(sel *ssa.Select) *ssa.BasicBlock {
	if sel.Blocking {
		return nil
	}
	n := len(sel.States)
	if n == 0 {
		return nil
	}
	// the else-successor of the comparison with the last state index
	var idx ssa.Value
	for _, r := range *sel.Referrers() {
		if e, ok := r.(*ssa.Extract); ok && e.Index == 0 {
			idx = e
		}
	}
	if idx == nil {
		return nil
	}
	for _, r := range *idx.Referrers() {
		bo, ok := r.(*ssa.BinOp)
		if !ok || bo.Op != token.EQL {
			continue
		}
		c, ok := constInt(bo.Y)
		if !ok || int(c) != n-1 {
			continue
		}
		for _, u := range *bo.Referrers() {
			if iff, ok := u.(*ssa.If); ok {
				return iff.Block().Succs[1]
			}
		}
	}
	return nil
}

// selectRecvValue returns the value received by case k of a select (nil if unused).
func selectRecvValue(sel *ssa.Select, k int) ssa.Value {
	// result tuple: (index, recvOk, r_0, ..., r_n-1) for recv states in order
	ri := 2
	for j, s := range sel.States {
		if s.Dir != types.RecvOnly {
			continue
		}
		if j == k {
			for _, r := range *sel.Referrers() {
				if e, ok := r.(*ssa.Extract); ok && e.Index == ri {
					return e
				}
			}
			return nil
		}
		ri++
	}
	return nil
}

// ---------------------------------------------------------------- field accesses

type fieldAccess struct {
	Fn    *ssa.Function
	In    ssa.Instruction
	Write bool
	Addr  bool // address taken / escapes in an unclassified way
	Base  ssa.Value
}

// fieldAccesses lists reads/writes of struct field f program-wide (non-test).
func (p *Prog) fieldAccesses(f *types.Var) []fieldAccess {
	var out []fieldAccess
	for _, fn := range p.SrcFns {
		if p.isTestFn(fn) {
			continue
		}
		eachInstr(fn, func(b *ssa.BasicBlock, i int, in ssa.Instruction) {
			switch x := in.(type) {
			case *ssa.FieldAddr:
				g, base := fieldAddr(x)
				if g != f {
					return
				}
				refs := x.Referrers()
				if refs == nil {
					return
				}
				for _, r := range *refs {
					switch y := r.(type) {
					case *ssa.Store:
						if y.Addr == x {
							out = append(out, fieldAccess{Fn: fn, In: y, Write: true, Base: base})
						} else {
							out = append(out, fieldAccess{Fn: fn, In: y, Addr: true, Base: base})
						}
					case *ssa.UnOp:
						// a loaded map that is updated or deleted from is a write of the guarded state
						w := false
						if rr := y.Referrers(); rr != nil {
							for _, u := range *rr {
								if mu, ok := u.(*ssa.MapUpdate); ok && mu.Map == ssa.Value(y) {
									w = true
								}
								if isBuiltin(u, "delete") && callOf(u).Args[0] == ssa.Value(y) {
									w = true
								}
							}
						}
						out = append(out, fieldAccess{Fn: fn, In: y, Write: w, Base: base})
					case *ssa.DebugRef:
					case *ssa.FieldAddr, *ssa.IndexAddr:
						// nested access into a struct/array-valued field: element-level; classify by its uses
						w := false
						if rr := y.(ssa.Value).Referrers(); rr != nil {
							for _, u := range *rr {
								if s, ok := u.(*ssa.Store); ok && s.Addr == y.(ssa.Value) {
									w = true
								}
							}
						}
						out = append(out, fieldAccess{Fn: fn, In: y, Write: w, Base: base})
					case *ssa.Call, *ssa.Defer, *ssa.Go:
						// method call on the field's address (e.g. mu.Lock(), atomic ops): treated as read of the field cell
						out = append(out, fieldAccess{Fn: fn, In: y, Addr: true, Base: base})
					default:
						out = append(out, fieldAccess{Fn: fn, In: r, Addr: true, Base: base})
					}
				}
			case *ssa.Field:
				g, base := loadedField(x)
				if g == f {
					out = append(out, fieldAccess{Fn: fn, In: x, Base: base})
				}
			}
		})
	}
	return out
}

// composite-literal initialisation of a field shows up as Store to FieldAddr of an Alloc;
// isFreshAlloc reports whether base is an object allocated in the same function
// (i.e. not yet shared when written).
func isFreshAlloc(base ssa.Value) bool {
	switch x := base.(type) {
	case *ssa.Alloc:
		return true
	case *ssa.UnOp:
		if x.Op == token.MUL {
			// load from a local cell: fresh iff the cell's only store puts a fresh allocation there
			if cell, ok := x.X.(*ssa.Alloc); ok {
				var st *ssa.Store
				n := 0
				for _, r := range *cell.Referrers() {
					if s, ok := r.(*ssa.Store); ok && s.Addr == ssa.Value(cell) {
						st, n = s, n+1
					}
				}
				if n == 1 {
					if _, isAlloc := st.Val.(*ssa.Alloc); isAlloc {
						return true
					}
				}
				if n == 0 {
					return true // value struct held in the cell itself
				}
			}
		}
	}
	return false
}

// ---------------------------------------------------------------- interprocedural helpers (robustness to helper extraction)

// staticCalleesDeep lists module functions statically called from fn, transitively to the given depth (fn excluded).
func staticCalleesDeep(fn *ssa.Function, depth int) []*ssa.Function {
	seen := map[*ssa.Function]bool{fn: true}
	var out []*ssa.Function
	var walk func(f *ssa.Function, d int)
	walk = func(f *ssa.Function, d int) {
		if d < 0 || f.Blocks == nil {
			return
		}
		eachInstr(f, func(_ *ssa.BasicBlock, _ int, in ssa.Instruction) {
			if _, isGo := in.(*ssa.Go); isGo {
				return
			}
			cc := callOf(in)
			if cc == nil {
				return
			}
			g := calleeFn(cc)
			if g == nil {
				// bound method value called later is not a static call
				return
			}
			if g.Synthetic != "" && g.Blocks != nil && !isModFn(g) {
				// wrapper: look through
				if !seen[g] {
					seen[g] = true
					walk(g, d)
				}
				return
			}
			if !isModFn(g) || seen[g] {
				return
			}
			seen[g] = true
			out = append(out, g)
			walk(g, d-1)
		})
	}
	walk(fn, depth)
	return out
}

// withHelpers returns fn, its closures and the module functions it calls statically (depth 2).
func withHelpers(fn *ssa.Function) []*ssa.Function {
	out := withAnon(fn)
	for _, g := range staticCalleesDeep(fn, 2) {
		out = append(out, withAnon(g)...)
	}
	return out
}

// derivesIP is derives() that also looks through static calls of module functions: the result of a call derives
// from whatever the callee's returned values derive from, and a callee parameter derives from the caller's argument.
func derivesIP(v ssa.Value, pred func(ssa.Value) bool, depth int) bool {
	type frame struct {
		call *ssa.Call
	}
	seen := map[ssa.Value]bool{}
	var walk func(v ssa.Value, stack []*ssa.Call, d int) bool
	walk = func(v ssa.Value, stack []*ssa.Call, d int) bool {
		if v == nil || seen[v] {
			return false
		}
		seen[v] = true
		if derives(v, func(y ssa.Value) bool {
			if pred(y) {
				return true
			}
			switch x := y.(type) {
			case *ssa.Call:
				g := calleeFn(x.Common())
				if g == nil || !isModFn(g) || g.Blocks == nil || d <= 0 {
					return false
				}
				if _, isB := x.Call.Value.(*ssa.Builtin); isB {
					return false
				}
				hit := false
				eachInstr(g, func(_ *ssa.BasicBlock, _ int, in ssa.Instruction) {
					if hit {
						return
					}
					if ret, ok := in.(*ssa.Return); ok {
						for _, r := range returnedValues(ret) {
							if walk(r, append(stack, x), d-1) {
								hit = true
							}
						}
					}
				})
				return hit
			case *ssa.Parameter:
				if len(stack) == 0 {
					return false
				}
				call := stack[len(stack)-1]
				g := calleeFn(call.Common())
				if g == nil || x.Parent() != g {
					return false
				}
				idx := paramIndex(g, x)
				if idx < 0 || idx >= len(call.Call.Args) {
					return false
				}
				return walk(call.Call.Args[idx], stack[:len(stack)-1], d)
			}
			return false
		}) {
			return true
		}
		return false
	}
	return walk(v, nil, depth)
}

// concreteIfaceTypes: the concrete types an interface value can have, following helper parameters to their call
// sites, captured variables to their cells, and phis. ok=false when some source cannot be resolved.
func (p *Prog) concreteIfaceTypes(v ssa.Value, depth int) ([]types.Type, bool) {
	var out []types.Type
	ok := true
	seen := map[ssa.Value]bool{}
	var walk func(v ssa.Value, d int)
	walk = func(v ssa.Value, d int) {
		if seen[v] {
			return
		}
		seen[v] = true
		switch x := v.(type) {
		case *ssa.MakeInterface:
			out = append(out, x.X.Type())
		case *ssa.Phi:
			for _, e := range x.Edges {
				walk(e, d)
			}
		case *ssa.ChangeInterface:
			walk(x.X, d)
		case *ssa.Parameter:
			fn := x.Parent()
			idx := -1
			for i, q := range fn.Params {
				if q == x {
					idx = i
				}
			}
			edges := p.callersOf(fn)
			if d <= 0 || idx < 0 || len(edges) == 0 {
				ok = false
				return
			}
			for _, e := range edges {
				if p.isTestFn(e.Caller.Func) {
					continue
				}
				args := e.Site.Common().Args
				if e.Site.Common().IsInvoke() || idx >= len(args) {
					ok = false
					continue
				}
				walk(args[idx], d-1)
			}
		case *ssa.UnOp:
			if x.Op != token.MUL {
				ok = false
				return
			}
			cell := x.X
			if fv, isFV := cell.(*ssa.FreeVar); isFV {
				// binding in the parent
				fn := fv.Parent()
				idx := -1
				for i, q := range fn.FreeVars {
					if q == fv {
						idx = i
					}
				}
				found := false
				if par := fn.Parent(); par != nil && idx >= 0 {
					eachInstr(par, func(_ *ssa.BasicBlock, _ int, in ssa.Instruction) {
						if mc, isMC := in.(*ssa.MakeClosure); isMC && mc.Fn == ssa.Value(fn) && idx < len(mc.Bindings) {
							cell = mc.Bindings[idx]
							found = true
						}
					})
				}
				if !found {
					ok = false
					return
				}
			}
			al, isAl := cell.(*ssa.Alloc)
			if !isAl {
				ok = false
				return
			}
			n := 0
			for _, r := range *al.Referrers() {
				if st, isSt := r.(*ssa.Store); isSt && st.Addr == ssa.Value(al) {
					n++
					walk(st.Val, d)
				}
			}
			if n == 0 {
				ok = false
			}
		default:
			ok = false
		}
	}
	walk(v, depth)
	return out, ok
}

// isStringVal: the value has a string type.
func isStringVal(v ssa.Value) bool {
	b, ok := v.Type().Underlying().(*types.Basic)
	return ok && b.Info()&types.IsString != 0
}

// closeSitesIn: the instructions of fn at which the latch field is closed - a close in fn itself, a call of a
// one-channel wrapper's closing method on the field, or the call that is handed a closure of fn which closes it
// (sync.Once.Do).
func (p *Prog) closeSitesIn(fn *ssa.Function, field *types.Var) []ssa.Instruction {
	return p.closeSitesIn1(fn, field, 0)
}

func (p *Prog) closeSitesIn1(fn *ssa.Function, field *types.Var, depth int) []ssa.Instruction {
	var out []ssa.Instruction
	// a helper of the same package that closes the latch (signalDrain(): once.Do(func() { close(l.drain) }))
	if depth < 2 && fn.Blocks != nil {
		eachInstr(fn, func(_ *ssa.BasicBlock, _ int, in ssa.Instruction) {
			if _, isGo := in.(*ssa.Go); isGo {
				return
			}
			cc := callOf(in)
			if cc == nil {
				return
			}
			g := cc.StaticCallee()
			if g == nil || g == fn || g.Blocks == nil || g.Pkg == nil || g.Pkg != fn.Pkg || g.Parent() != nil {
				return
			}
			if len(p.closeSitesIn1(g, field, depth+1)) > 0 {
				out = append(out, in)
			}
		})
	}
	for _, op := range p.chanOpsOnField(field) {
		if op.Kind != opClose {
			continue
		}
		if op.Fn == fn {
			out = append(out, op.In)
			continue
		}
		if op.Fn.Parent() == fn {
			eachInstr(fn, func(_ *ssa.BasicBlock, _ int, in ssa.Instruction) {
				if cc := callOf(in); cc != nil {
					for _, a := range cc.Args {
						if funcValue(a) == op.Fn {
							out = append(out, in)
						}
					}
				}
			})
		}
	}
	return out
}

// methodCall resolves a call to its declared callee and its arguments with the receiver first, also when the callee
// is spelled as a method value: `f := r.m; f(x)` (a bound-method closure called directly) and the same local captured
// by a closure (`go func() { f(x) }()`: a cell of the parent with a single store of the method value).
func methodCall(cc *ssa.CallCommon) (*ssa.Function, []ssa.Value) {
	if cc == nil || cc.IsInvoke() {
		return nil, nil
	}
	bound := func(v ssa.Value) (*ssa.Function, ssa.Value) {
		mc, ok := v.(*ssa.MakeClosure)
		if !ok || len(mc.Bindings) != 1 {
			return nil, nil
		}
		w, ok := mc.Fn.(*ssa.Function)
		if !ok || w.Synthetic == "" {
			return nil, nil
		}
		mo, _ := w.Object().(*types.Func)
		if mo == nil {
			return nil, nil
		}
		if m := w.Prog.FuncValue(mo); m != nil {
			return m, mc.Bindings[0]
		}
		return nil, nil
	}
	v := cc.Value
	if m, recv := bound(v); m != nil {
		return m, append([]ssa.Value{recv}, cc.Args...)
	}
	if f := cc.StaticCallee(); f != nil {
		return f, cc.Args
	}
	// a local function variable that lives in a cell
	if u, ok := v.(*ssa.UnOp); ok && u.Op == token.MUL {
		if cell, ok := cellKey(u).(*ssa.Alloc); ok {
			var st *ssa.Store
			n := 0
			for _, r := range *cell.Referrers() {
				if s, ok := r.(*ssa.Store); ok && s.Addr == ssa.Value(cell) {
					st = s
					n++
				}
			}
			if n == 1 {
				if m, recv := bound(st.Val); m != nil {
					return m, append([]ssa.Value{recv}, cc.Args...)
				}
				if f, ok := st.Val.(*ssa.Function); ok {
					return f, cc.Args
				}
			}
		}
	}
	return nil, nil
}

// callersSeeThrough is callersOf with the edges out of bound-method wrappers and thunks (`r.m` / `T.m` used as a
// value) replaced by the call sites that call the wrapper: the site that really runs fn. The arguments of such a site
// do not include the receiver.
func (p *Prog) callersSeeThrough(fn *ssa.Function) []*callgraph.Edge {
	var out []*callgraph.Edge
	for _, e := range p.callersOf(fn) {
		cf := e.Caller.Func
		if cf.Synthetic != "" && cf.Pkg == nil && (strings.HasSuffix(cf.Name(), "$bound") || strings.HasSuffix(cf.Name(), "$thunk")) {
			if inner := p.callersOf(cf); len(inner) > 0 {
				out = append(out, inner...)
				continue
			}
		}
		out = append(out, e)
	}
	return out
}

// declaredFn maps a bound-method wrapper or thunk to the method it wraps; other functions map to themselves.
func declaredFn(f *ssa.Function) *ssa.Function {
	if f == nil || f.Synthetic == "" {
		return f
	}
	if mo, _ := f.Object().(*types.Func); mo != nil {
		if m := f.Prog.FuncValue(mo); m != nil {
			return m
		}
	}
	return f
}

// paramFuncTargets: the declared functions that the callers of fn pass for its function-typed parameter prm; nil when
// a caller passes something that is not a function constant or method value.
func (p *Prog) paramFuncTargets(fn *ssa.Function, prm *ssa.Parameter) []*ssa.Function {
	idx := paramIndex(fn, prm)
	if idx < 0 {
		return nil
	}
	var out []*ssa.Function
	for _, e := range p.callersOf(fn) {
		args := e.Site.Common().Args
		if e.Site.Common().StaticCallee() != fn || idx >= len(args) {
			return nil
		}
		g := declaredFn(funcValue(args[idx]))
		if g == nil {
			return nil
		}
		out = append(out, g)
	}
	return out
}

// condAtom: a comparison and the truth value it is known to have.
type condAtom struct {
	cmp   *ssa.BinOp // the comparison, or nil when the condition is a plain boolean value
	val   ssa.Value  // that boolean value (a comma-ok result, the result of a predicate call)
	truth bool
}

// impliedAtoms: the comparisons whose value follows from cond == truth. Negations are unfolded, and so are the boolean
// phis of short-circuit operators: `a && b` is true only on the edge that evaluated b (so a and b hold), `a || b` is
// false only on the edge that evaluated b (so neither holds).
func impliedAtoms(cond ssa.Value, truth bool, depth int) []condAtom {
	return impliedAtoms2(cond, truth, depth, true)
}

// impliedAtoms2 with withPath=false leaves out what was decided on the way to a short-circuit operand: only the
// comparisons of the condition itself.
func impliedAtoms2(cond ssa.Value, truth bool, depth int, withPath bool) []condAtom {
	if depth > 6 {
		return nil
	}
	switch x := cond.(type) {
	case *ssa.UnOp:
		if x.Op == token.NOT {
			return impliedAtoms2(x.X, !truth, depth+1, withPath)
		}
	case *ssa.BinOp:
		switch x.Op {
		case token.LSS, token.LEQ, token.GTR, token.GEQ, token.EQL, token.NEQ:
			return []condAtom{{cmp: x, truth: truth}}
		}
	case *ssa.Extract, *ssa.Call:
		if b, ok := cond.Type().Underlying().(*types.Basic); ok && b.Kind() == types.Bool {
			return []condAtom{{val: cond, truth: truth}}
		}
	case *ssa.Phi:
		// edges that can produce `truth`
		var live []int
		for i, e := range x.Edges {
			if cv, ok := e.(*ssa.Const); ok && cv.Value != nil && cv.Value.Kind() == constant.Bool {
				if constant.BoolVal(cv.Value) != truth {
					continue
				}
			}
			live = append(live, i)
		}
		if len(live) != 1 {
			return nil
		}
		i := live[0]
		out := impliedAtoms2(x.Edges[i], truth, depth+1, withPath)
		if !withPath {
			// the operand was evaluated because the earlier operands had the value that does not decide
			pred := x.Block().Preds[i]
			for _, d := range x.Block().Parent().Blocks {
				if len(d.Instrs) == 0 {
					continue
				}
				if iff, ok := d.Instrs[len(d.Instrs)-1].(*ssa.If); ok && d.Succs[0] != d.Succs[1] {
					for k := 0; k < 2; k++ {
						if d.Succs[k] == pred && len(pred.Preds) == 1 {
							out = append(out, impliedAtoms2(iff.Cond, k == 0, depth+1, false)...)
						}
					}
				}
			}
			return out
		}
		return append(out, atomsAt(x.Block().Preds[i], depth+1)...)
	}
	return nil
}

// atomsAt: the comparisons decided on every path to block b - by the branches of its dominators whose taken edge
// leads only to b's region.
func atomsAt(b *ssa.BasicBlock, depth int) []condAtom {
	if depth > 6 {
		return nil
	}
	var out []condAtom
	for _, d := range b.Parent().Blocks {
		if len(d.Instrs) == 0 || !d.Dominates(b) {
			continue
		}
		iff, ok := d.Instrs[len(d.Instrs)-1].(*ssa.If)
		if !ok || d.Succs[0] == d.Succs[1] {
			continue
		}
		for k := 0; k < 2; k++ {
			s := d.Succs[k]
			if len(s.Preds) == 1 && (s == b || s.Dominates(b)) {
				out = append(out, impliedAtoms(iff.Cond, k == 0, depth+1)...)
			}
		}
	}
	return out
}

// atomImpliesAtLeastOne: the atom compares x with a constant in a way that makes x >= 1.
func atomImpliesAtLeastOne(a condAtom, isX func(ssa.Value) bool) bool {
	if a.cmp == nil {
		return false
	}
	k, isC := constInt(a.cmp.Y)
	if !isC || !isX(a.cmp.X) {
		return false
	}
	op := a.cmp.Op
	if !a.truth {
		op = negate(op)
	}
	switch op {
	case token.NEQ:
		return k == 0 // lengths are never negative
	case token.GTR:
		return k >= 0
	case token.GEQ:
		return k >= 1
	}
	return false
}

// feasiblePhiEdges: the incoming values of phi that can be its value at block `at`: an edge is dropped when the
// comparisons decided on the way into it contradict the comparisons decided on the way to `at` (the same immutable
// SSA comparison with the opposite outcome - two branches on one flag).
func feasiblePhiEdges(phi *ssa.Phi, at *ssa.BasicBlock) []ssa.Value {
	here := atomsAt(at, 0)
	var out []ssa.Value
	for i, e := range phi.Edges {
		pred := phi.Block().Preds[i]
		in := atomsAt(pred, 0)
		if iff, ok := pred.Instrs[len(pred.Instrs)-1].(*ssa.If); ok && pred.Succs[0] != pred.Succs[1] {
			for k := 0; k < 2; k++ {
				if pred.Succs[k] == phi.Block() {
					in = append(in, impliedAtoms(iff.Cond, k == 0, 0)...)
				}
			}
		}
		contradicts := false
		for _, a := range in {
			for _, b := range here {
				if a.cmp == b.cmp && a.val == b.val && a.truth != b.truth {
					contradicts = true
				}
			}
		}
		if !contradicts {
			out = append(out, e)
		}
	}
	return out
}

// derefType: the pointee of a pointer type, the type itself otherwise.
func derefType(t types.Type) types.Type {
	if pt, ok := t.Underlying().(*types.Pointer); ok {
		return pt.Elem()
	}
	return t
}
