package main

import (
	"bufio"
	"encoding/json"
	"fmt"
	"go/token"
	"os"
	"path/filepath"
	"sort"
	"strings"
	"time"
)

type Status string

const (
	StOK         Status = "discharged"
	StViolation  Status = "violation"
	StUndecided  Status = "undecided"
	StUnresolved Status = "unresolved"
)

// Obligation is one rule instance at one structural site.
type Obligation struct {
	Rule    string `json:"rule"`
	Key     string `json:"key"` // rule / func / structural descriptor - no line numbers
	Pos     string `json:"pos"`
	Status  Status `json:"status"`
	Detail  string `json:"detail,omitempty"`
	Known   bool   `json:"known_finding,omitempty"`
	Trivial bool   `json:"-"`
}

// Ctx collects the obligations of one property run.
type Ctx struct {
	Prop  string
	Tier  string
	P     *Prog
	Obls  []*Obligation
	keys  map[string]int
	Notes []string // what was analysed
	Rules map[string]string
	start time.Time
	// coverage extras
	Extra map[string]interface{}
	// alias: while a rule group of another property is re-evaluated as part of this one, its rule names are mapped
	alias map[string]string
}

// withAlias runs f with rule names translated (shared rule groups keep their own site keys).
func (c *Ctx) withAlias(m map[string]string, f func()) {
	old := c.alias
	nm := map[string]string{}
	for k, v := range old {
		nm[k] = v
	}
	for k, v := range m {
		if w, ok := old[v]; ok {
			v = w
		}
		nm[k] = v
	}
	c.alias = nm
	defer func() { c.alias = old }()
	f()
}

func (c *Ctx) mapRule(rule string) string {
	if r, ok := c.alias[rule]; ok {
		return r
	}
	return rule
}

func newCtx(prop, tier string, p *Prog) *Ctx {
	return &Ctx{Prop: prop, Tier: tier, P: p, keys: map[string]int{}, Rules: map[string]string{}, start: time.Now(), Extra: map[string]interface{}{}}
}

func (c *Ctx) add(rule, site string, pos token.Pos, st Status, detail string) *Obligation {
	rule = c.mapRule(rule)
	if rule == "" { // a rule group re-evaluated for another property with this rule left out
		return &Obligation{}
	}
	key := c.Prop + "." + rule + " / " + site
	if n := c.keys[key]; n > 0 {
		c.keys[key] = n + 1
		key = fmt.Sprintf("%s #%d", key, n+1)
	} else {
		c.keys[key] = 1
	}
	o := &Obligation{Rule: c.Prop + "." + rule, Key: key, Pos: c.P.Pos(pos), Status: st, Detail: detail}
	c.Obls = append(c.Obls, o)
	return o
}

// OK records a discharged obligation with its witness.
func (c *Ctx) OK(rule, site string, pos token.Pos, witness string) {
	c.add(rule, site, pos, StOK, witness)
}

// Fail records a violated obligation.
func (c *Ctx) Fail(rule, site string, pos token.Pos, why string) {
	c.add(rule, site, pos, StViolation, why)
}

// Undecided records a construct the rule cannot classify (counts as failure).
func (c *Ctx) Undecided(rule, site string, pos token.Pos, why string) {
	c.add(rule, site, pos, StUndecided, why)
}

// Unresolved records an anchor that could not be found (counts as failure).
func (c *Ctx) Unresolved(rule, what string) {
	c.add(rule, "anchor "+what, token.NoPos, StUnresolved, "anchor does not resolve in the current tree: "+what)
}

// Check is OK/Fail by condition.
func (c *Ctx) Check(cond bool, rule, site string, pos token.Pos, okWitness, failWhy string) bool {
	if cond {
		c.OK(rule, site, pos, okWitness)
	} else {
		c.Fail(rule, site, pos, failWhy)
	}
	return cond
}

// Rule documents a rule (printed in evidence).
func (c *Ctx) Rule(rule, text string) {
	if _, aliased := c.alias[rule]; aliased {
		return
	}
	c.Rules[c.Prop+"."+rule] = text
}

// Expect fails when a rule matched fewer instances than confirmed by hand (vacuity guard).
func (c *Ctx) Expect(rule string, min int) {
	rule = c.mapRule(rule)
	if rule == "" {
		return
	}
	n := 0
	for _, o := range c.Obls {
		if o.Rule == c.Prop+"."+rule {
			n++
		}
	}
	if n < min {
		c.add(rule, "instance-count", token.NoPos, StUnresolved,
			fmt.Sprintf("rule matched %d instance(s), fewer than the %d confirmed by hand: rule would pass vacuously", n, min))
	}
}

func (c *Ctx) Note(format string, a ...interface{}) {
	c.Notes = append(c.Notes, fmt.Sprintf(format, a...))
}

// KnownFinding is one line of /verif/known_findings.jsonl.
type KnownFinding struct {
	Status   string `json:"status"` // known | fixed
	Property string `json:"property"`
	Key      string `json:"key"`
	What     string `json:"what"`
	Commit   string `json:"commit,omitempty"`
}

func loadKnown(path string) ([]KnownFinding, error) {
	f, err := os.Open(path)
	if err != nil {
		if os.IsNotExist(err) {
			return nil, nil
		}
		return nil, err
	}
	defer f.Close()
	var out []KnownFinding
	sc := bufio.NewScanner(f)
	sc.Buffer(make([]byte, 1<<20), 1<<20)
	for sc.Scan() {
		line := strings.TrimSpace(sc.Text())
		if line == "" || strings.HasPrefix(line, "#") {
			continue
		}
		var k KnownFinding
		if err := json.Unmarshal([]byte(line), &k); err != nil {
			return nil, fmt.Errorf("%s: %v", path, err)
		}
		out = append(out, k)
	}
	return out, sc.Err()
}

type levelInfo struct {
	Level       string
	Explanation string
	Assumptions []string
	TrustedBase []string
}

// Finish prints the verdict, writes evidence and replay files; returns the exit code.
func (c *Ctx) Finish(verifDir string, li levelInfo, seed int64) int {
	known, err := loadKnown(filepath.Join(verifDir, "known_findings.jsonl"))
	if err != nil {
		fmt.Fprintf(os.Stderr, "samlint: %v\n", err)
		return 2
	}
	knownKeys := map[string]KnownFinding{}
	for _, k := range known {
		if k.Status == "known" && k.Property == c.Prop {
			knownKeys[k.Key] = k
		}
	}
	sort.SliceStable(c.Obls, func(i, j int) bool { return c.Obls[i].Key < c.Obls[j].Key })
	var bad []*Obligation
	nOK, nKnown := 0, 0
	distinct := map[string]bool{}
	for _, o := range c.Obls {
		switch o.Status {
		case StOK:
			nOK++
			distinct[o.Key] = true
		default:
			if k, ok := knownKeys[o.Key]; ok && o.Status == StViolation {
				o.Known = true
				nKnown++
				fmt.Printf("KNOWN-FINDING: property=%s %s — %s [%s]\n", c.Prop, o.Key, k.What, o.Pos)
				continue
			}
			bad = append(bad, o)
		}
	}
	byRule := map[string][2]int{}
	for _, o := range c.Obls {
		v := byRule[o.Rule]
		v[0]++
		if o.Status == StOK {
			v[1]++
		}
		byRule[o.Rule] = v
	}
	var rules []string
	for r := range byRule {
		rules = append(rules, r)
	}
	sort.Strings(rules)
	for _, n := range c.Notes {
		fmt.Printf("analysed: %s\n", n)
	}
	for _, r := range rules {
		fmt.Printf("rule %-10s instances=%-4d discharged=%-4d  %s\n", r, byRule[r][0], byRule[r][1], c.Rules[r])
	}
	replayDir := filepath.Join(verifDir, "evidence", "replay")
	os.MkdirAll(replayDir, 0o755)
	// remove stale replay files of this property
	if old, _ := filepath.Glob(filepath.Join(replayDir, c.Prop+"-*.json")); old != nil {
		for _, f := range old {
			os.Remove(f)
		}
	}
	for i, o := range bad {
		path := filepath.Join(replayDir, fmt.Sprintf("%s-%d.json", c.Prop, i+1))
		b, _ := json.MarshalIndent(map[string]interface{}{
			"property": c.Prop, "rule": o.Rule, "key": o.Key, "pos": o.Pos, "status": o.Status,
			"reason": o.Detail, "rule_text": c.Rules[o.Rule], "variant": c.P.Variant,
		}, "", " ")
		os.WriteFile(path, b, 0o644)
		fmt.Printf("%s: [%s] %s: %s\n    key: %s\n", o.Pos, strings.ToUpper(string(o.Status)), o.Rule, o.Detail, o.Key)
		fmt.Printf("VIOLATION property=%s replay=%s\n", c.Prop, path)
	}
	// evidence
	samples := []interface{}{}
	perRule := map[string]int{}
	for _, o := range c.Obls {
		if perRule[o.Rule] >= 4 && o.Status == StOK {
			continue
		}
		perRule[o.Rule]++
		samples = append(samples, o)
	}
	cov := map[string]interface{}{
		"obligations":         len(c.Obls),
		"discharged":          nOK,
		"evaluations":         len(c.Obls),
		"distinct_nontrivial": len(distinct),
		"rule": "one obligation per (rule, function, structural site) found in the type-checked SSA of /repo; distinct = distinct obligation keys that were discharged with a witness; " +
			"a rule whose instance count falls below the hand-confirmed minimum fails (no vacuous pass)",
		"samples":         samples,
		"explanation":     li.Explanation,
		"rules":           c.Rules,
		"instances":       byRule,
		"analysed":        c.Notes,
		"known_findings":  nKnown,
		"build_variant":   c.P.Variant,
		"checker_cmd":     fmt.Sprintf("/verif/bin/samlint check -prop %s -tier %s", c.Prop, c.Tier),
		"trusted_base":    li.TrustedBase,
		"exhaustive":      false,
		"violations_keys": keysOf(bad),
	}
	for k, v := range c.Extra {
		cov[k] = v
	}
	ev := map[string]interface{}{
		"property_id": c.Prop,
		"tier":        c.Tier,
		"seed":        seed,
		"level":       li.Level,
		"coverage":    cov,
		"assumptions": li.Assumptions,
		"wall_s":      time.Since(c.start).Seconds(),
		"violations":  len(bad),
	}
	b, _ := json.MarshalIndent(ev, "", " ")
	os.MkdirAll(filepath.Join(verifDir, "evidence"), 0o755)
	if err := os.WriteFile(filepath.Join(verifDir, "evidence", c.Prop+".json"), b, 0o644); err != nil {
		fmt.Fprintf(os.Stderr, "samlint: %v\n", err)
		return 2
	}
	fmt.Printf("summary property=%s tier=%s obligations=%d discharged=%d known=%d failing=%d\n",
		c.Prop, c.Tier, len(c.Obls), nOK, nKnown, len(bad))
	if len(bad) > 0 {
		return 1
	}
	return 0
}

func keysOf(os []*Obligation) []string {
	out := []string{}
	for _, o := range os {
		out = append(out, o.Key)
	}
	return out
}
