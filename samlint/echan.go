package main

import (
	"fmt"
	"go/token"
	"go/types"

	"golang.org/x/tools/go/ssa"
)

// E-chan: classification of potentially unbounded blocking channel operations.

type blockClass int

const (
	bcNonBlocking blockClass = iota // select with default
	bcGuarded                       // blocking select that also watches a quit-like latch / ctx.Done()
	bcBounded                       // every case is a timer
	bcJoin                          // plain receive on a lifecycle latch closed by a goroutine of the component
	bcUnguarded
)

func (b blockClass) String() string {
	return [...]string{"non-blocking", "guarded", "bounded", "join", "UNGUARDED"}[b]
}

type blockingOp struct {
	In    ssa.Instruction
	Fn    *ssa.Function
	Class blockClass
	What  string // description of the channel(s)
	Why   string
}

type chanEngine struct {
	p *Prog
	// latches: chan struct{} fields that are closed somewhere and never sent on
	latch map[*types.Var]bool
}

func newChanEngine(p *Prog) *chanEngine {
	e := &chanEngine{p: p, latch: map[*types.Var]bool{}}
	closed := map[*types.Var]bool{}
	sent := map[*types.Var]bool{}
	for _, fn := range p.SrcFns {
		if p.isTestFn(fn) {
			continue
		}
		eachInstr(fn, func(_ *ssa.BasicBlock, _ int, in ssa.Instruction) {
			switch x := in.(type) {
			case *ssa.Call, *ssa.Defer:
				if isBuiltin(in, "close") {
					if f, _ := chanFieldOf(callOf(in).Args[0]); f != nil {
						closed[f] = true
					}
				}
			case *ssa.Send:
				if f, _ := chanFieldOf(x.Chan); f != nil {
					sent[f] = true
				}
			case *ssa.Select:
				for _, st := range x.States {
					if st.Dir == types.SendOnly {
						if f, _ := chanFieldOf(st.Chan); f != nil {
							sent[f] = true
						}
					}
				}
			}
		})
	}
	for f := range closed {
		if !sent[f] {
			e.latch[f] = true
		}
	}
	// a field whose type is a one-channel wrapper around a latch channel is a latch
	for _, pk := range p.Pkgs {
		if pk.Types == nil {
			continue
		}
		sc := pk.Types.Scope()
		for _, n := range sc.Names() {
			tn, ok := sc.Lookup(n).(*types.TypeName)
			if !ok {
				continue
			}
			st, ok := tn.Type().Underlying().(*types.Struct)
			if !ok {
				continue
			}
			for i := 0; i < st.NumFields(); i++ {
				if in := chanWrapperInner(st.Field(i).Type()); in != nil && e.latch[in] {
					e.latch[st.Field(i)] = true
				}
			}
		}
	}
	return e
}

// isQuitLike: v is a lifecycle latch (closed, never sent on) or a context's Done channel.
func (e *chanEngine) isQuitLike(v ssa.Value) (bool, string) {
	if f, _ := chanFieldOf(v); f != nil && e.latch[f] {
		return true, f.Name()
	}
	if c, ok := v.(*ssa.Call); ok {
		if c.Call.IsInvoke() && c.Call.Method.Name() == "Done" {
			return true, "ctx.Done()"
		}
		if g := calleeFn(c.Common()); g != nil {
			if gf := trivialGetterField(g); gf != nil && e.latch[gf] {
				return true, gf.Name()
			}
		}
	}
	if _, ok := v.(*ssa.Parameter); ok {
		// a receive-only chan struct{} parameter named quit/stop/done is the caller's latch
		if ch, isCh := v.Type().Underlying().(*types.Chan); isCh {
			if st, isSt := ch.Elem().Underlying().(*types.Struct); isSt && st.NumFields() == 0 {
				return true, "param " + v.Name()
			}
		}
	}
	return false, ""
}

func isTimerChan(v ssa.Value) bool {
	// t.C of *time.Timer / *time.Ticker, or time.After(...)
	if f, base := loadedField(v); f != nil && f.Name() == "C" {
		if typeIs(base.Type(), "time", "Timer") || typeIs(base.Type(), "time", "Ticker") {
			return true
		}
	}
	if c, ok := v.(*ssa.Call); ok && isCallTo(c, "time.After") {
		return true
	}
	return false
}

// drainAfterStop: the receive is control dependent on the result of (*time.Timer).Stop of the same timer.
func drainAfterStop(rcv *ssa.UnOp) bool {
	_, base := loadedField(rcv.X)
	if base == nil {
		return false
	}
	b := rcv.Block()
	fn := b.Parent()
	for _, d := range fn.Blocks {
		if d == b || !d.Dominates(b) || len(d.Instrs) == 0 {
			continue
		}
		iff, ok := d.Instrs[len(d.Instrs)-1].(*ssa.If)
		if !ok {
			continue
		}
		onStop := derives(iff.Cond, func(v ssa.Value) bool {
			call, ok := v.(*ssa.Call)
			if !ok {
				return false
			}
			g := calleeFn(call.Common())
			return g != nil && g.String() == "(*time.Timer).Stop" && len(call.Call.Args) == 1 && accessPathOr(call.Call.Args[0]) == accessPathOr(base)
		})
		if !onStop {
			continue
		}
		for _, s := range d.Succs {
			if len(s.Preds) == 1 && (s == b || s.Dominates(b)) {
				return true
			}
		}
	}
	return false
}

func chanDescr(v ssa.Value) string {
	if f, _ := chanFieldOf(v); f != nil {
		return f.Name()
	}
	if isTimerChan(v) {
		return "timer"
	}
	if c, ok := v.(*ssa.Call); ok {
		if c.Call.IsInvoke() {
			return c.Call.Method.Name() + "()"
		}
		if g := calleeFn(c.Common()); g != nil {
			return g.Name() + "()"
		}
	}
	if a := accessPath(v, nil, 0); a != "" {
		return a
	}
	return v.Name()
}

// localLatchClosedByGoroutine: v is a channel made in fn and closed in a goroutine closure of fn.
func localLatchClosedByGoroutine(fn *ssa.Function, v ssa.Value) bool {
	mk, ok := v.(*ssa.MakeChan)
	if !ok {
		// captured cell
		if u, isU := v.(*ssa.UnOp); isU {
			if al, isAl := u.X.(*ssa.Alloc); isAl {
				for _, r := range *al.Referrers() {
					if st, isSt := r.(*ssa.Store); isSt && st.Addr == ssa.Value(al) {
						if m, isMk := st.Val.(*ssa.MakeChan); isMk {
							mk = m
						}
					}
				}
				if mk != nil {
					return closedInAnon(fn, al)
				}
			}
		}
		return false
	}
	// direct value captured by closures: bindings hold the MakeChan value itself
	for _, a := range fn.AnonFuncs {
		found := false
		eachInstr(fn, func(_ *ssa.BasicBlock, _ int, in ssa.Instruction) {
			if mc, ok := in.(*ssa.MakeClosure); ok && mc.Fn == ssa.Value(a) {
				for _, b := range mc.Bindings {
					if b == ssa.Value(mk) {
						found = true
					}
				}
			}
		})
		if found {
			ok := false
			eachInstr(a, func(_ *ssa.BasicBlock, _ int, in ssa.Instruction) {
				if isBuiltin(in, "close") {
					ok = true
				}
			})
			if ok {
				return true
			}
		}
	}
	// handed to a function or method started with go, which closes that parameter
	res := false
	eachInstr(fn, func(_ *ssa.BasicBlock, _ int, in ssa.Instruction) {
		g, ok := in.(*ssa.Go)
		if !ok {
			return
		}
		f := calleeFn(&g.Call)
		if f == nil || f.Blocks == nil {
			return
		}
		for i, a := range g.Call.Args {
			for {
				ct, isCT := a.(*ssa.ChangeType)
				if !isCT {
					break
				}
				a = ct.X
			}
			if a != ssa.Value(mk) || i >= len(f.Params) {
				continue
			}
			prm := f.Params[i]
			eachInstr(f, func(_ *ssa.BasicBlock, _ int, fi ssa.Instruction) {
				if isBuiltin(fi, "close") {
					if cc := callOf(fi); cc != nil && len(cc.Args) == 1 && cc.Args[0] == ssa.Value(prm) {
						res = true
					}
				}
			})
		}
	})
	return res
}

func closedInAnon(fn *ssa.Function, cell *ssa.Alloc) bool {
	for _, a := range fn.AnonFuncs {
		idx := -1
		eachInstr(fn, func(_ *ssa.BasicBlock, _ int, in ssa.Instruction) {
			if mc, ok := in.(*ssa.MakeClosure); ok && mc.Fn == ssa.Value(a) {
				for i, b := range mc.Bindings {
					if b == ssa.Value(cell) {
						idx = i
					}
				}
			}
		})
		if idx < 0 {
			continue
		}
		fv := a.FreeVars[idx]
		ok := false
		eachInstr(a, func(_ *ssa.BasicBlock, _ int, in ssa.Instruction) {
			if isBuiltin(in, "close") {
				if u, isU := callOf(in).Args[0].(*ssa.UnOp); isU && u.X == ssa.Value(fv) {
					ok = true
				}
			}
		})
		if ok {
			return true
		}
	}
	return false
}

// classify returns every blocking channel operation of fn with its class.
// joinLatches: latch fields accepted as join targets (lifecycle done latches).
func (e *chanEngine) classify(fn *ssa.Function, joinLatches map[*types.Var]bool) []blockingOp {
	var out []blockingOp
	eachInstr(fn, func(_ *ssa.BasicBlock, _ int, in ssa.Instruction) {
		switch x := in.(type) {
		case *ssa.Select:
			if !x.Blocking {
				return
			}
			desc := ""
			guarded, allTimer := false, true
			for _, st := range x.States {
				if desc != "" {
					desc += " | "
				}
				desc += chanDescr(st.Chan)
				if st.Dir == types.RecvOnly {
					if ok, _ := e.isQuitLike(st.Chan); ok {
						guarded = true
					}
				}
				if !isTimerChan(st.Chan) {
					allTimer = false
				}
			}
			op := blockingOp{In: in, Fn: fn, What: "select{" + desc + "}"}
			switch {
			case guarded:
				op.Class = bcGuarded
			case allTimer && len(x.States) > 0:
				op.Class = bcBounded
			default:
				op.Class = bcUnguarded
				op.Why = "no case watches a quit latch or context"
			}
			out = append(out, op)
		case *ssa.Send:
			out = append(out, blockingOp{In: in, Fn: fn, Class: bcUnguarded, What: "send " + chanDescr(x.Chan), Why: "plain channel send blocks until a receiver (or buffer space) is available"})
		case *ssa.UnOp:
			if x.Op != token.ARROW {
				return
			}
			op := blockingOp{In: in, Fn: fn, What: "recv " + chanDescr(x.X)}
			if isTimerChan(x.X) && drainAfterStop(x) {
				// "if !t.Stop() { <-t.C }": bounded only if the timer's value has not been received yet - after a
				// receive from t.C (the timer fired and its case was taken) Stop returns false and nothing is left
				op.Class = bcUnguarded
				op.Why = "a timer channel is drained after Stop() returned false: when the value was already received (the timer's case was taken) nothing will ever arrive and the receive blocks for ever"
			} else if isTimerChan(x.X) {
				op.Class = bcBounded
			} else if q, _ := e.isQuitLike(x.X); q && !isDoneLike(x.X) {
				// waiting for the quit latch itself: this is the wait for the stop request
				op.Class = bcGuarded
			} else if f, _ := chanFieldOf(x.X); f != nil && joinLatches[f] {
				op.Class = bcJoin
			} else if localLatchClosedByGoroutine(fn, x.X) {
				op.Class = bcJoin
			} else {
				op.Class = bcUnguarded
				op.Why = "plain receive with no quit case"
			}
			out = append(out, op)
		case *ssa.Next, *ssa.Range:
		}
	})
	return out
}

// waitsOn: fn (through static calls, depth-bounded) performs a plain receive on latch field f.
func (p *Prog) waitsOn(fn *ssa.Function, f *types.Var, depth int, seen map[*ssa.Function]bool) ssa.Instruction {
	if fn == nil || fn.Blocks == nil || depth < 0 || seen[fn] {
		return nil
	}
	seen[fn] = true
	var hit ssa.Instruction
	eachInstr(fn, func(_ *ssa.BasicBlock, _ int, in ssa.Instruction) {
		if hit != nil {
			return
		}
		if u, ok := in.(*ssa.UnOp); ok && u.Op == token.ARROW {
			if g, _ := chanFieldOf(u.X); g == f {
				hit = in
			}
		}
		if _, isGo := in.(*ssa.Go); isGo {
			return
		}
		if cc := callOf(in); cc != nil {
			if g := calleeFn(cc); g != nil && isModFn(g) {
				if h := p.waitsOn(g, f, depth-1, seen); h != nil {
					hit = in
				}
			}
		}
	})
	return hit
}

func fmtOps(ops []blockingOp) string {
	s := ""
	for _, o := range ops {
		s += fmt.Sprintf("%s[%s] ", o.What, o.Class)
	}
	return s
}

// isDoneLike: the channel is a field named done (a completion latch that other code joins on, not a stop request).
func isDoneLike(v ssa.Value) bool {
	f, _ := chanFieldOf(v)
	return f != nil && f.Name() == "done"
}
