package main

import (
	"fmt"
	"go/constant"
	"go/token"
	"go/types"
	"sort"
	"strings"

	"golang.org/x/tools/go/ssa"
)

func init() {
	register(&propDef{
		id: "C10",
		li: levelInfo{
			Level:       "other",
			Explanation: "Static necessary conditions of the RESP codec's round trip. R1: the set of RespType constants, the decoder's two dispatches and the encoder's dispatch are the same set. R2 (escape analysis): a slice aliasing the reader's internal buffer (the result of ReadSlice) flows only into byte comparisons, len, parsing and copies - never into a decoded value, a return of a text/bulk decoder, or any store; otherwise a later refill, which happens or not depending on how the bytes were chunked, rewrites an already decoded value. R3: bulk framing agreement - the decoder reads n+2 bytes, tests offsets n and n+1 against CR and LF and returns [:n]; the encoder writes length, CR LF, bytes, CR LF. R4: null != empty by construction - the nil constant is returned exactly on the -1 paths, every other path returns an allocation that cannot be nil (read size provably >= 1, make for arrays); the encoder emits -1 exactly under == nil. R5: both length limits are tested before the allocation/read they protect (zone witnesses). R6: the buffered reader's 'buffer full' branch is taken only when the whole buffer is occupied by one unterminated line. Round-trip equality and chunk independence for all values are value-level and not decided. R7: the encoder's integer text comes from strconv / the itoa table, or from digit arithmetic that never negates a signed value. R8: the decoder's nesting counter is balanced on every path (shared with C11.R4) and inline commands are split on the space byte only. R2 also: an in-place append into a decoded text requires capacity-limited slab slices. R9: null and empty stay apart - no RESP text is replaced by a nil-ness changing copy of another text. R10: a hand-written n = n*10 + digit loop runs only over slices whose length has a zone witness small enough for the accumulator (18 digits for int64). R11: the slab cursor only advances or takes a fresh chunk. R12: the line reader's line end is start-of-window + index + 1. R8 also requires the depth guard to accept exactly the named depth. R12 also: the returned line starts at the read position; slices made by a helper of the reader are evaluated with its parameters bound to the arguments. R5 also: the length is not provably below the documented limit at the payload read / allocation (lengths up to the limit are accepted); a length read through a range-checking helper is followed. R3 also: the text decoder returns the line without exactly its last two bytes.",
			TrustedBase: []string{"go/ssa", "samlint ebounds.go + zone.go"},
		},
		run: checkC10,
	})
	techniques["C10"] = "static analysis: sibling agreement of dispatch tables, escape (taint) analysis of read-buffer aliases, zone-domain witnesses for framing and limits"
}

// aliasEscape follows a value that aliases the reader buffer and reports the first use through which
// the alias (not a copy of its bytes) can outlive the call. depth bounds interprocedural descent.
func (p *Prog) aliasEscape(v ssa.Value, depth int, seen map[ssa.Value]bool) (string, ssa.Instruction) {
	if seen[v] || depth < 0 {
		return "", nil
	}
	seen[v] = true
	refs := v.Referrers()
	if refs == nil {
		return "", nil
	}
	for _, r := range *refs {
		switch x := r.(type) {
		case *ssa.DebugRef, *ssa.IndexAddr, *ssa.Index:
			// element access: reads a byte
			if ia, ok := r.(*ssa.IndexAddr); ok {
				for _, u := range *ia.Referrers() {
					if st, ok := u.(*ssa.Store); ok && st.Addr == ssa.Value(ia) {
						return "", nil // writing into the alias is a different problem
					}
				}
			}
		case *ssa.Slice:
			if w, at := p.aliasEscape(x, depth, seen); w != "" {
				return w, at
			}
		case *ssa.Phi:
			if w, at := p.aliasEscape(x, depth, seen); w != "" {
				return w, at
			}
		case *ssa.Extract:
			// only byte-slice components of a tuple can carry the alias
			if _, isSl := x.Type().Underlying().(*types.Slice); !isSl {
				continue
			}
			if w, at := p.aliasEscape(x, depth, seen); w != "" {
				return w, at
			}
		case *ssa.Convert:
			// []byte -> string copies
			if b, ok := x.Type().Underlying().(*types.Basic); ok && b.Kind() == types.String {
				continue
			}
			if w, at := p.aliasEscape(x, depth, seen); w != "" {
				return w, at
			}
		case *ssa.ChangeType:
			if w, at := p.aliasEscape(x, depth, seen); w != "" {
				return w, at
			}
		case *ssa.BinOp, *ssa.If:
		case *ssa.Return:
			return "is returned to the caller", x
		case *ssa.Store:
			if x.Val == v {
				// store into a local result cell that is only returned is a return
				return "is stored (" + x.Addr.String() + ")", x
			}
		case *ssa.MapUpdate:
			return "is stored in a map", x
		case *ssa.Send:
			return "is sent on a channel", x
		case *ssa.MakeInterface:
			return "is boxed into an interface", x
		case *ssa.Call:
			cc := x.Common()
			if b, ok := cc.Value.(*ssa.Builtin); ok {
				switch b.Name() {
				case "len", "cap":
					continue
				case "copy":
					if cc.Args[1] == v {
						continue
					}
					continue // destination of a copy: bytes written, no alias kept
				case "append":
					// append(dst, v...) with byte elements copies
					if cc.Args[0] != v {
						if sl, ok := cc.Args[0].Type().Underlying().(*types.Slice); ok {
							if bt, ok := sl.Elem().Underlying().(*types.Basic); ok && bt.Kind() == types.Uint8 {
								continue
							}
						}
					}
					return "is appended as an element / grown in place", x
				}
				continue
			}
			g := calleeFn(cc)
			if g == nil {
				return "is passed to a dynamic call", x
			}
			switch g.String() {
			case "bytes.Equal", "bytes.EqualFold", "bytes.IndexByte", "bytes.Index", "bytes.HasPrefix", "bytes.HasSuffix", "bytes.Compare", "bytes.Contains", "strconv.ParseInt":
				continue
			}
			if !isModFn(g) || g.Blocks == nil {
				return "is passed to " + g.String(), x
			}
			for i, a := range cc.Args {
				if a == v && i < len(g.Params) {
					w, at := p.aliasEscape(g.Params[i], depth-1, seen)
					if w == "is returned to the caller" {
						// the helper hands (a part of) the alias back: keep following the call's result here
						if w2, at2 := p.aliasEscape(x, depth, seen); w2 != "" {
							return w2, at2
						}
						continue
					}
					if w != "" {
						return "is passed to " + g.Name() + " where it " + w, at
					}
				}
			}
			// the callee may return (a slice of) its argument
			// handled by the callee's Return case above
		default:
			return fmt.Sprintf("flows into %T", r), r
		}
	}
	return "", nil
}

func checkC10(c *Ctx) {
	p := c.P
	c.Rule("R1", "type agreement: RespType constants == decoder dispatches == encoder dispatch")
	c.Rule("R2", "no alias of the read buffer escapes into a decoded value")
	c.Rule("R3", "bulk framing agreement between decoder (n+2, CR at n, LF at n+1, [:n]) and encoder (len, CRLF, bytes, CRLF)")
	c.Rule("R4", "null != empty by construction on both sides")
	c.Rule("R5", "length limits tested before the allocation / read they protect")
	c.Rule("R6", "buffer-full branch only when the whole buffer is one unterminated line")
	c.Rule("R7", "integer text: the encoder's decimal text comes from strconv / the itoa table, or from digit arithmetic that never negates a signed value")

	pk := p.TPkg(redisPkg)
	// ---------------- R1
	consts := map[int64]string{}
	sc := pk.Types.Scope()
	for _, n := range sc.Names() {
		if k, ok := sc.Lookup(n).(*types.Const); ok && types.TypeString(k.Type(), nil) == modPath+"/"+redisPkg+".RespType" {
			v, _ := constant.Int64Val(k.Val())
			consts[v] = n
		}
	}
	want := []string{}
	for _, n := range consts {
		want = append(want, n)
	}
	sort.Strings(want)
	dispatchSet := func(fn *ssa.Function) []string {
		set := map[string]bool{}
		eachInstr(fn, func(_ *ssa.BasicBlock, _ int, in ssa.Instruction) {
			bo, ok := in.(*ssa.BinOp)
			if !ok || bo.Op != token.EQL {
				return
			}
			if !modType(bo.X.Type(), redisPkg, "RespType") {
				return
			}
			if cv, isC := constInt(bo.Y); isC {
				if n, ok := consts[cv]; ok {
					set[n] = true
				} else {
					set[fmt.Sprintf("%q", rune(cv))] = true
				}
			}
		})
		var out []string
		for n := range set {
			out = append(out, n)
		}
		sort.Strings(out)
		return out
	}
	for _, name := range []string{"(*decoder).decode", "(*decoder).decodeResp", "(*encoder).encode"} {
		fn := p.Func(redisPkg, name)
		if fn == nil {
			c.Unresolved("R1", name)
			continue
		}
		got := dispatchSet(fn)
		c.Check(strings.Join(got, ",") == strings.Join(want, ","), "R1", name+" dispatch", fn.Pos(), "handles exactly {"+strings.Join(want, ",")+"}", "dispatch handles {"+strings.Join(got, ",")+"} but the RespType constants are {"+strings.Join(want, ",")+"}: a value of the missing type cannot round-trip")
	}
	wantBytes := map[string]int64{"SimpleString": '+', "Error": '-', "Integer": ':', "BulkString": '$', "Array": '*'}
	for n, b := range wantBytes {
		found := false
		for v, cn := range consts {
			if cn == n && v == b {
				found = true
			}
		}
		c.Check(found, "R1", "RESP type byte of "+n, token.NoPos, fmt.Sprintf("%q", rune(b)), "RESP type "+n+" does not use the protocol's type byte")
	}
	c.Expect("R1", 8)

	readSlice := p.Func(redisPkg, "(*Reader).ReadSlice")
	checkReadBufferAlias(c, "R2")
	c.Expect("R2", 5)

	// ---------------- R3 / R4 / R5 decoder side
	if fn := p.Func(redisPkg, "(*decoder).decodeBulkString"); fn == nil {
		c.Unresolved("R3", "decodeBulkString")
	} else {
		bc := newBoundsCtx(p, fn)
		var nVal ssa.Value
		var rf *ssa.Call
		eachInstr(fn, func(_ *ssa.BasicBlock, _ int, in ssa.Instruction) {
			if call, ok := in.(*ssa.Call); ok {
				if g := calleeFn(call.Common()); g != nil {
					if g.Name() == "decodeInt" || returnsDecodedInt(g) {
						for _, r := range *call.Referrers() {
							if ex, ok := r.(*ssa.Extract); ok && ex.Index == 0 {
								nVal = ex
							}
						}
					}
					if g.Name() == "ReadFull" {
						rf = call
					}
				}
			}
		})
		if nVal == nil || rf == nil {
			c.Fail("R3", "bulk decoder shape", fn.Pos(), "the bulk decoder does not read a length and then the payload with ReadFull")
		} else {
			nt := bc.term(nVal)
			at := bc.term(rf.Call.Args[1])
			z := bc.zoneAt(rf.Block())
			c.Check(z.entEQ(at, lterm{nt.v, nt.c + 2}), "R3", "decoder reads n+2 bytes", rf.Pos(), "ReadFull(n+2): payload and CR LF in one read", fmt.Sprintf("the bulk decoder reads %s%+d bytes for a declared length n=%s: payload and terminator are not consumed together", at.v, at.c, nt.v))
			// R4: read size >= 1 so the result cannot be the nil slice
			c.Check(z.entLE(lconst(1), at), "R4", "bulk payload read is never empty", rf.Pos(), "n >= 0 on this path, so the read size is >= 2 and ReadFull allocates", "the read size can be 0 on the non-null path: ReadFull(0) returns the nil slice, so an empty bulk string decodes as null and re-encodes as $-1")
			// R5: upper limit before the read
			maxC := int64(-1)
			if k, ok := sc.Lookup("maxBulkStringLen").(*types.Const); ok {
				maxC, _ = constant.Int64Val(k.Val())
			}
			c.Check(maxC > 0 && z.entLE(nt, lconst(maxC)) && z.entLE(lconst(0), nt), "R5", "bulk length limit before the read", rf.Pos(), fmt.Sprintf("0 <= n <= %d entailed at the read", maxC), "the payload is allocated/read before the declared length is checked against the limit (a peer can make the proxy allocate any amount)")
			// ... and no lower one: what the encoder writes the decoder reads back, so a length up to the limit is accepted
			// (a proof that n is smaller at the read is a proof that such values are rejected)
			if maxC > 0 {
				c.Check(!z.entLE(nt, lconst(maxC-1)), "R5", "bulk lengths up to the limit are accepted", rf.Pos(), fmt.Sprintf("n == %d reaches the read", maxC), fmt.Sprintf("at the payload read the length is provably below the documented limit %d (a smaller constant - the array limit, say - is used for bulk strings): the encoder still writes such values, the decoder rejects them with a sticky error - a value the client stored cannot be read back", maxC))
			}
			// CR / LF tests at n and n+1, return [:n]
			var b ssa.Value
			for _, r := range *rf.Referrers() {
				if ex, ok := r.(*ssa.Extract); ok && ex.Index == 0 {
					b = ex
				}
			}
			crOK, lfOK, retOK := false, false, false
			eachInstr(fn, func(_ *ssa.BasicBlock, _ int, in ssa.Instruction) {
				switch x := in.(type) {
				case *ssa.BinOp:
					if x.Op != token.NEQ && x.Op != token.EQL {
						return
					}
					ld, ok := x.X.(*ssa.UnOp)
					if !ok {
						return
					}
					ia, ok := ld.X.(*ssa.IndexAddr)
					if !ok || ia.X != b {
						return
					}
					cv, isC := constInt(x.Y)
					if !isC {
						if f, _ := x.Y.(*ssa.Const); f == nil {
							return
						}
					}
					it := bc.term(ia.Index)
					if cv == '\r' && it.v == nt.v && it.c == nt.c {
						crOK = true
					}
					if cv == '\n' && it.v == nt.v && it.c == nt.c+1 {
						lfOK = true
					}
				case *ssa.Return:
					if sl, ok := returnedValues(x)[0].(*ssa.Slice); ok && sl.X == b && sl.Low == nil && sl.High != nil {
						ht := bc.term(sl.High)
						if ht.v == nt.v && ht.c == nt.c {
							retOK = true
						}
					}
				}
			})
			c.Check(crOK && lfOK, "R3", "decoder tests CR at n and LF at n+1", fn.Pos(), "b[n]==CR, b[n+1]==LF", "the terminator of a bulk string is not tested at offsets n and n+1")
			c.Check(retOK, "R3", "decoder returns b[:n]", fn.Pos(), "payload without the terminator", "the bulk decoder does not return exactly the first n bytes")
		}
		// nil exactly on the -1 path
		nNil := 0
		eachInstr(fn, func(b *ssa.BasicBlock, _ int, in ssa.Instruction) {
			ret, ok := in.(*ssa.Return)
			if !ok || len(ret.Results) != 2 || !isNilConst(returnedValues(ret)[0]) || !isNilConst(returnedValues(ret)[1]) {
				return
			}
			nNil++
			z := bc.zoneAt(b)
			okm1 := nVal != nil && z.entEQ(bc.term(nVal), lconst(-1))
			c.Check(okm1, "R4", fmt.Sprintf("bulk null return#%d only for length -1", nNil), ret.Pos(), "n == -1 entailed", "the bulk decoder returns the null value on a path where the declared length is not -1")
		})
		c.Check(nNil == 1, "R4", "bulk decoder has one null path", fn.Pos(), "one `return nil, nil`", fmt.Sprintf("%d null returns", nNil))
	}
	if fn := p.Func(redisPkg, "(*decoder).decodeArray"); fn == nil {
		c.Unresolved("R4", "decodeArray")
	} else {
		bc := newBoundsCtx(p, fn)
		var nVal ssa.Value
		var mk *ssa.MakeSlice
		eachInstr(fn, func(_ *ssa.BasicBlock, _ int, in ssa.Instruction) {
			if call, ok := in.(*ssa.Call); ok {
				if g := calleeFn(call.Common()); g != nil && (g.Name() == "decodeInt" || returnsDecodedInt(g)) {
					for _, r := range *call.Referrers() {
						if ex, ok := r.(*ssa.Extract); ok && ex.Index == 0 {
							nVal = ex
						}
					}
				}
			}
			if m, ok := in.(*ssa.MakeSlice); ok {
				mk = m
			}
		})
		if nVal == nil || mk == nil {
			c.Fail("R4", "array decoder shape", fn.Pos(), "the array decoder does not read a length and allocate the elements")
		} else {
			nt := bc.term(nVal)
			z := bc.zoneAt(mk.Block())
			maxC := int64(-1)
			if k, ok := sc.Lookup("maxArrayLen").(*types.Const); ok {
				maxC, _ = constant.Int64Val(k.Val())
			}
			lt := bc.term(mk.Len)
			c.Check(lt.v == nt.v && lt.c == nt.c, "R3", "array decoder allocates n elements", mk.Pos(), "make([]RespValue, n)", "the array decoder does not allocate exactly the declared number of elements")
			c.Check(maxC > 0 && z.entLE(nt, lconst(maxC)) && z.entLE(lconst(0), nt), "R5", "array length limit before the allocation", mk.Pos(), fmt.Sprintf("0 <= n <= %d entailed at the make", maxC), "the element slice is allocated before the declared length is checked against the limit")
			if maxC > 0 {
				c.Check(!z.entLE(nt, lconst(maxC-1)), "R5", "array lengths up to the limit are accepted", mk.Pos(), fmt.Sprintf("n == %d reaches the allocation", maxC), fmt.Sprintf("at the allocation the length is provably below the documented limit %d: arrays the encoder writes are rejected by the decoder", maxC))
			}
			// returns: nil only when n == -1; otherwise the made slice
			eachInstr(fn, func(b *ssa.BasicBlock, _ int, in ssa.Instruction) {
				ret, ok := in.(*ssa.Return)
				if !ok || len(ret.Results) != 2 || !isNilConst(returnedValues(ret)[1]) {
					return
				}
				if isNilConst(returnedValues(ret)[0]) {
					zz := bc.zoneAt(b)
					c.Check(zz.entEQ(nt, lconst(-1)), "R4", "array null return only for length -1", ret.Pos(), "n == -1 entailed", "the array decoder returns the null array on a path where the declared length is not -1")
				} else {
					c.Check(returnedValues(ret)[0] == ssa.Value(mk), "R4", "array success returns the allocated slice", ret.Pos(), "non-nil even when empty", "the array decoder's success path does not return the allocated slice (an empty array could decode as null)")
				}
			})
		}
	}
	// text lines (simple strings, errors, inline commands): the decoder returns the line without its last two bytes -
	// not "without trailing CR/LF bytes", which also eats a payload that ends in CR
	if fn := p.Func(redisPkg, "(*decoder).decodeTextBytes"); fn == nil {
		c.Unresolved("R3", "decodeTextBytes")
	} else {
		nret := 0
		var scan func(fn *ssa.Function, depth int)
		scan = func(fn *ssa.Function, depth int) {
			eachInstr(fn, func(_ *ssa.BasicBlock, _ int, in ssa.Instruction) {
				r, ok := in.(*ssa.Return)
				if !ok {
					return
				}
				vals := returnedValues(r)
				if len(vals) != 2 {
					return
				}
				// the cut made by a helper whose results are handed on (`return trimCRLF(line)`)
				if ex, isEx := vals[0].(*ssa.Extract); isEx && depth < 2 {
					if call, isCall := ex.Tuple.(*ssa.Call); isCall {
						if ex1, isEx1 := vals[1].(*ssa.Extract); isEx1 && ex1.Tuple == ex.Tuple {
							if g := calleeFn(call.Common()); g != nil && isModFn(g) && g.Blocks != nil {
								scan(g, depth+1)
								return
							}
						}
					}
				}
				if !isNilConst(vals[1]) {
					return
				}
				nret++
				okCut := false
				if sl, isSl := vals[0].(*ssa.Slice); isSl && sl.Low == nil && sl.High != nil {
					// High == len(X) - 2
					hv := stripConv(sl.High)
					if bo, isBo := hv.(*ssa.BinOp); isBo && bo.Op == token.SUB {
						if k, isC := constInt(bo.Y); isC && k == 2 {
							if lc, isCall := bo.X.(*ssa.Call); isCall && isBuiltin(lc, "len") && lc.Call.Args[0] == sl.X {
								okCut = true
							}
						}
					}
				}
				c.Check(okCut, "R3", fmt.Sprintf("text decoder return#%d is the line without its last two bytes", nret), r.Pos(), "b[:len(b)-2]", "the text decoder does not return exactly the line minus its two terminator bytes (e.g. it trims every trailing CR/LF byte): a simple string, error or inline command whose payload ends in CR is decoded without it, so decoding what the encoder wrote is not the identity and the inline and the array form of one command decode differently")
			})
		}
		scan(fn, 0)
		if nret == 0 {
			c.Fail("R3", "text decoder returns a line", fn.Pos(), "decodeTextBytes has no successful return")
		}
	}
	// encoder side
	for _, pr := range []struct{ name, what string }{{"(*encoder).encodeBulkBytes", "bulk"}, {"(*encoder).encodeArray", "array"}} {
		fn := p.Func(redisPkg, pr.name)
		if fn == nil {
			c.Unresolved("R4", pr.name)
			continue
		}
		prm := fn.Params[1]
		// -1 emitted exactly under prm == nil
		okNull := false
		var lenCall, body ssa.Instruction
		eachInstr(fn, func(b *ssa.BasicBlock, _ int, in ssa.Instruction) {
			call, ok := in.(*ssa.Call)
			if !ok {
				return
			}
			g := calleeFn(call.Common())
			if g == nil {
				return
			}
			if g.Name() == "encodeInt" {
				if cv, isC := constInt(call.Call.Args[1]); isC && cv == -1 {
					for _, d := range fn.Blocks {
						if iff, ok := d.Instrs[len(d.Instrs)-1].(*ssa.If); ok {
							if bo, ok := iff.Cond.(*ssa.BinOp); ok && bo.Op == token.EQL && bo.X == ssa.Value(prm) && isNilConst(bo.Y) {
								if s := d.Succs[0]; len(s.Preds) == 1 && (s == b || s.Dominates(b)) {
									okNull = true
								}
							}
						}
					}
				} else if lc, ok := stripConv(call.Call.Args[1]).(*ssa.Call); ok && isBuiltin(lc, "len") && lc.Call.Args[0] == ssa.Value(prm) {
					lenCall = in
				}
			}
			if g.Name() == "encodeTextBytes" || g.Name() == "encode" {
				body = in
			}
		})
		c.Check(okNull, "R4", pr.what+" encoder emits -1 exactly for nil", fn.Pos(), "encodeInt(-1) dominated by value == nil", "the "+pr.what+" encoder does not emit the null form exactly for the nil value (empty and null are confused on the wire)")
		c.Check(lenCall != nil && body != nil && instrDominates(lenCall, body), "R3", pr.what+" encoder writes the length before the content", fn.Pos(), "encodeInt(len) dominates the content", "the "+pr.what+" encoder does not write the length line before the content")
	}
	if fn := p.Func(redisPkg, "(*encoder).encodeTextBytes"); fn != nil {
		var w, crlf ssa.Instruction
		eachInstr(fn, func(_ *ssa.BasicBlock, _ int, in ssa.Instruction) {
			if call, ok := in.(*ssa.Call); ok {
				if g := calleeFn(call.Common()); g != nil {
					if g.String() == "(*bufio.Writer).Write" && call.Call.Args[1] == ssa.Value(fn.Params[1]) {
						w = in
					}
					if g.Name() == "writeCRLF" {
						crlf = in
					}
				}
			}
		})
		c.Check(w != nil && crlf != nil && instrDominates(w, crlf), "R3", "content followed by CR LF", fn.Pos(), "Write(bytes) then CR LF", "text/bulk content is not followed by CR LF")
	}
	c.Expect("R3", 7)
	c.Expect("R4", 7)
	c.Expect("R5", 2)
	checkEncoderIntegerText(c, "R7")
	c.Rule("R12", "independence of chunking: the line reader's returned line ends at (start of the searched window + index + 1)")
	checkLineEndMatchesSearch(c, "R12")
	c.Rule("R11", "decoded bytes are handed out once: the slab allocator's cursor only advances or takes a fresh chunk")
	checkSlabNeverRewinds(c, "R11")
	c.Rule("R10", "the integer fast path cannot overflow: a hand-written n = n*10 + digit loop only runs over slices short enough (zone witness) for the value to fit its type")
	checkDigitAccumulation(c, "R10")
	c.Rule("R9", "null and empty stay apart after decoding: no RESP text is replaced by a copy made with an idiom that turns empty into nil or nil into empty")
	checkTextNilness(c, "R9")
	c.Rule("R8", "decoder state does not leak between messages: the nesting counter is balanced on every path (shared with C11.R4); inline commands are split on the space byte only")
	c.withAlias(map[string]string{"R4": "R8"}, func() { checkRecursion(c, inputCone(p)) })
	checkInlineSplit(c, "R8")
	checkInPlaceTextRewrite(c, "R2")

	// ---------------- R6: ReadSlice's buffer-full branch
	if readSlice != nil {
		okFull := false
		eachInstr(readSlice, func(b *ssa.BasicBlock, _ int, in ssa.Instruction) {
			ret, ok := in.(*ssa.Return)
			if !ok || len(ret.Results) != 2 {
				return
			}
			u, ok := returnedValues(ret)[1].(*ssa.UnOp)
			if !ok {
				return
			}
			if g, ok := u.X.(*ssa.Global); !ok || g.Name() != "ErrBufferFull" {
				return
			}
			// dominated by buffered() == len(b.buf)
			for _, d := range readSlice.Blocks {
				iff, ok := d.Instrs[len(d.Instrs)-1].(*ssa.If)
				if !ok {
					continue
				}
				bo, ok := iff.Cond.(*ssa.BinOp)
				if !ok || bo.Op != token.EQL {
					continue
				}
				cl, ok := bo.X.(*ssa.Call)
				if !ok || calleeFn(cl.Common()) == nil || calleeFn(cl.Common()).Name() != "buffered" {
					continue
				}
				if lc, ok := bo.Y.(*ssa.Call); ok && isBuiltin(lc, "len") {
					if s := d.Succs[0]; len(s.Preds) == 1 && (s == b || s.Dominates(b)) {
						okFull = true
					}
				}
			}
			// the whole buffer is handed out
			if f, _ := loadedField(returnedValues(ret)[0]); f == nil || f.Name() != "buf" {
				okFull = false
			}
		})
		c.Check(okFull, "R6", "buffer-full only when buffered()==len(buf), returning the whole buffer", readSlice.Pos(), "condition and result agree", "the buffer-full branch is taken while the unterminated line does not yet fill the buffer (a length/integer line that merely ends at the buffer end makes a valid stream fail, depending on chunking), or hands out a partial buffer")
	}
}

// checkReadBufferAlias: a slice aliasing the reader's internal buffer never escapes into a decoded value.
func checkReadBufferAlias(c *Ctx, rule string) {
	p := c.P
	readSlice := p.Func(redisPkg, "(*Reader).ReadSlice")
	if readSlice == nil {
		c.Unresolved(rule, "(*Reader).ReadSlice")
	} else {
		n := 0
		for _, fn := range p.FuncsIn(redisPkg) {
			if p.isTestFn(fn) {
				continue
			}
			eachInstr(fn, func(_ *ssa.BasicBlock, _ int, in ssa.Instruction) {
				call, ok := in.(*ssa.Call)
				if !ok || !isCallToFn(call, readSlice) {
					return
				}
				n++
				site := fmt.Sprintf("%s use#%d of ReadSlice", fnKey(fn), n)
				var alias ssa.Value
				for _, r := range *call.Referrers() {
					if ex, ok := r.(*ssa.Extract); ok && ex.Index == 0 {
						alias = ex
					}
				}
				if alias == nil {
					c.OK(rule, site, call.Pos(), "result unused")
					return
				}
				why, at := p.aliasEscape(alias, 3, map[ssa.Value]bool{})
				if why != "" {
					pos := call.Pos()
					if at != nil && at.Pos().IsValid() {
						pos = at.Pos()
					}
					c.Fail(rule, site, pos, "a slice that aliases the reader's internal buffer "+why+": the next refill of the buffer - which happens or not depending on how the peer's bytes were chunked - overwrites the decoded value while it is still queued")
				} else {
					c.OK(rule, site, call.Pos(), "alias used only for byte tests, len, parsing and as a copy source")
				}
			})
		}
		// ReadSlice itself returns sub-slices of b.buf: its callers are the only holders (checked above)
		c.Check(n >= 2, rule, "ReadSlice users found", readSlice.Pos(), fmt.Sprintf("%d call sites", n), "no call site of ReadSlice found")
	}
	// value-carrying decoders must return owned memory: results derive from ReadBytes/ReadFull (allocating), never from ReadSlice
	for _, name := range []string{"(*decoder).decodeTextBytes", "(*decoder).decodeBulkString", "(*decoder).decodeInline"} {
		fn := p.Func(redisPkg, name)
		if fn == nil {
			c.Unresolved(rule, name)
			continue
		}
		usesRS := false
		eachInstr(fn, func(_ *ssa.BasicBlock, _ int, in ssa.Instruction) {
			if isCallToFn(in, readSlice) {
				usesRS = true
			}
		})
		c.Check(!usesRS, rule, name+" reads into owned memory", fn.Pos(), "uses the allocating readers (ReadBytes/ReadFull)", "a value-carrying decoder reads with ReadSlice (no copy)")
	}

}

// checkEncoderIntegerText (C10.R7): the decimal text of integers, bulk lengths and array lengths. Every function of
// the encoder that turns an integer into text is classified: delegation to strconv / the itoa table is accepted as is;
// hand-written digit arithmetic is accepted only if it never negates a signed value (the one value whose negation
// overflows, math.MinInt64, would otherwise be written as ":-" - a reply no decoder accepts) - negation is sound
// only when the result is converted to an unsigned type at once.
func checkEncoderIntegerText(c *Ctx, rule string) {
	p := c.P
	enc := p.Func(redisPkg, "(*encoder).Encode")
	if enc == nil {
		c.Unresolved(rule, "(*encoder).Encode")
		return
	}
	cone := p.reachable([]*ssa.Function{enc}, func(g *ssa.Function) bool {
		return g.Pkg == nil || g.Pkg.Pkg.Path() != modPath+"/"+redisPkg
	})
	var fns []*ssa.Function
	for f := range cone {
		if f.Pkg != nil && f.Pkg.Pkg.Path() == modPath+"/"+redisPkg {
			fns = append(fns, f)
		}
	}
	sort.Slice(fns, func(i, j int) bool { return fnKey(fns[i]) < fnKey(fns[j]) })
	n := 0
	for _, fn := range fns {
		// integer -> text: has an integer parameter/operand and either calls strconv or does digit arithmetic
		usesStrconv, digitArith := false, false
		var neg ssa.Instruction
		eachInstr(fn, func(_ *ssa.BasicBlock, _ int, in ssa.Instruction) {
			if cc := callOf(in); cc != nil {
				if g := calleeFn(cc); g != nil && g.Pkg != nil && g.Pkg.Pkg.Path() == "strconv" {
					usesStrconv = true
				}
			}
			isSigned := func(t types.Type) bool {
				b, ok := t.Underlying().(*types.Basic)
				return ok && b.Info()&types.IsInteger != 0 && b.Info()&types.IsUnsigned == 0
			}
			var negated ssa.Value
			switch x := in.(type) {
			case *ssa.UnOp:
				if x.Op == token.SUB && isSigned(x.Type()) {
					negated = x
				}
			case *ssa.BinOp:
				if x.Op == token.SUB && isSigned(x.Type()) {
					if k, isC := constInt(x.X); isC && k == 0 {
						negated = x
					}
				}
				if (x.Op == token.REM || x.Op == token.QUO) && isSigned(x.Type()) {
					if k, isC := constInt(x.Y); isC && k == 10 {
						digitArith = true
					}
				}
			}
			if negated != nil {
				if u, isU := negated.(*ssa.UnOp); isU {
					if _, isC := u.X.(*ssa.Const); isC {
						return
					}
				}
				onlyUnsigned := true
				for _, r := range *negated.Referrers() {
					cv, ok := r.(*ssa.Convert)
					if !ok {
						if _, isDbg := r.(*ssa.DebugRef); isDbg {
							continue
						}
						onlyUnsigned = false
						continue
					}
					if b, ok := cv.Type().Underlying().(*types.Basic); !ok || b.Info()&types.IsUnsigned == 0 {
						onlyUnsigned = false
					}
				}
				if !onlyUnsigned {
					neg = in
				}
			}
		})
		if !usesStrconv && !digitArith && neg == nil {
			continue
		}
		n++
		site := "integer text in " + fnKey(fn)
		switch {
		case neg != nil:
			c.Fail(rule, site, neg.Pos(), "a signed integer is negated while it is formatted: for math.MinInt64 the negation overflows back to itself, the digit loop then produces no digits and the value is written as \":-\" - encode and decode are no longer inverse for that value")
		case digitArith:
			c.OK(rule, site, fn.Pos(), "hand-written digits without signed negation")
		default:
			c.OK(rule, site, fn.Pos(), "delegated to strconv")
		}
	}
	c.Expect(rule, 1)
}

// checkInlineSplit: an inline command must decode to the same request as its array form. Arguments are separated by
// the space byte; a Unicode-aware splitter (bytes.Fields, strings.Fields, unicode.IsSpace) also splits on TAB, VT,
// U+00A0, U+3000 ..., which are legal bytes inside an argument.
func checkInlineSplit(c *Ctx, rule string) {
	p := c.P
	fn := p.Func(redisPkg, "(*decoder).decodeInline")
	if fn == nil {
		c.Unresolved(rule, "(*decoder).decodeInline")
		return
	}
	bad := ""
	var at token.Pos = fn.Pos()
	for _, f := range append([]*ssa.Function{fn}, staticCalleesDeep(fn, 2)...) {
		eachInstr(f, func(_ *ssa.BasicBlock, _ int, in ssa.Instruction) {
			cc := callOf(in)
			if cc == nil {
				return
			}
			g := calleeFn(cc)
			if g == nil || g.Pkg == nil {
				return
			}
			switch g.Pkg.Pkg.Path() + "." + g.Name() {
			case "bytes.Fields", "strings.Fields", "bytes.FieldsFunc", "strings.FieldsFunc", "unicode.IsSpace", "bytes.TrimSpace", "strings.TrimSpace":
				bad = g.Pkg.Pkg.Path() + "." + g.Name()
				at = in.Pos()
			}
		})
	}
	c.Check(bad == "", rule, "inline command split on the space byte only", at, "no Unicode-aware splitter in the inline decoder", "the inline decoder uses "+bad+", which also splits on TAB, VT, FF and Unicode spaces (U+00A0, U+3000 ...): an argument that contains such a character is cut in two, so the inline form no longer decodes to the same request as the array form")
}

// checkTextNilness (C10.R9, C03.R9): in this codec a nil Text is the null bulk ("$-1") and an empty non-nil Text the
// empty string ("$0"). A copy of a RESP text that is written into a RESP text must keep that distinction. The copy
// idioms that lose it: append(nil-or-empty, t...) (an empty t becomes nil, or a nil t becomes empty),
// []byte(string(t)) and make(len(t))+copy (a nil t becomes empty). Such a copy is accepted only under a test of t.
func checkTextNilness(c *Ctx, rule string) {
	p := c.P
	isText := func(v ssa.Value) bool {
		f, b := loadedField(v)
		return f != nil && f.Name() == "Text" && b != nil && modType(b.Type(), redisPkg, "RespValue")
	}
	isEmptyBase := func(v ssa.Value) bool {
		switch x := v.(type) {
		case *ssa.Const:
			return x.Value == nil
		case *ssa.MakeSlice:
			k, ok := constInt(x.Len)
			return ok && k == 0
		case *ssa.Slice:
			// t[:0] of a fresh array / literal
			if x.High != nil {
				if k, ok := constInt(x.High); ok && k == 0 {
					if _, isAl := x.X.(*ssa.Alloc); isAl {
						return true
					}
				}
			}
			if al, ok := x.X.(*ssa.Alloc); ok {
				if at, ok := deref(al.Type()).Underlying().(*types.Array); ok && at.Len() == 0 {
					return true
				}
			}
		}
		return false
	}
	// the text a nil-ness changing copy is made of, if v is such a copy
	var lossy func(v ssa.Value, depth int) (ssa.Value, string)
	lossy = func(v ssa.Value, depth int) (ssa.Value, string) {
		if depth > 4 {
			return nil, ""
		}
		switch x := v.(type) {
		case *ssa.Call:
			if isBuiltin(x, "append") && len(x.Call.Args) == 2 && isEmptyBase(x.Call.Args[0]) && isText(x.Call.Args[1]) {
				return x.Call.Args[1], "append(empty, text...)"
			}
		case *ssa.Convert:
			if inner, ok := x.X.(*ssa.Convert); ok && isByteSliceVal(x) && isStringVal(inner) && isText(inner.X) {
				return inner.X, "[]byte(string(text))"
			}
		case *ssa.MakeSlice:
			if cl, ok := x.Len.(*ssa.Call); ok && isBuiltin(cl, "len") && isText(cl.Call.Args[0]) {
				return cl.Call.Args[0], "make([]byte, len(text)) + copy"
			}
		case *ssa.Slice:
			return lossy(x.X, depth+1)
		case *ssa.ChangeType:
			return lossy(x.X, depth+1)
		}
		return nil, ""
	}
	nst, nbad := 0, 0
	for _, fn := range p.FuncsIn(redisPkg) {
		if p.isTestFn(fn) {
			continue
		}
		eachInstr(fn, func(b *ssa.BasicBlock, _ int, in ssa.Instruction) {
			st, ok := in.(*ssa.Store)
			if !ok {
				return
			}
			f, base := fieldAddr(st.Addr)
			if f == nil || f.Name() != "Text" || !modType(base.Type(), redisPkg, "RespValue") {
				return
			}
			nst++
			src, how := lossy(st.Val, 0)
			if src == nil {
				return
			}
			// accepted under a test of the source text (nil comparison or length comparison) that decides this block
			guarded := false
			srcF, srcB := loadedField(src)
			for _, d := range fn.Blocks {
				iff, ok := d.Instrs[len(d.Instrs)-1].(*ssa.If)
				if !ok || !(d.Dominates(b)) || d == b {
					continue
				}
				tests := false
				derives(iff.Cond, func(v ssa.Value) bool {
					if f2, b2 := loadedField(v); f2 != nil && f2 == srcF && accessPathOr(b2) == accessPathOr(srcB) {
						tests = true
					}
					return false
				})
				if tests {
					for _, s := range d.Succs {
						if len(s.Preds) == 1 && (s == b || s.Dominates(b)) {
							guarded = true
						}
					}
				}
			}
			if guarded {
				return
			}
			nbad++
			c.Fail(rule, fmt.Sprintf("%s text copy#%d keeps null and empty apart", fnKey(fn), nbad), st.Pos(), "a RESP text is copied with "+how+", which turns an empty string into the null bulk or the null bulk into an empty string: the client reads a key that holds \"\" as missing (or the reverse)")
		})
	}
	if nst == 0 {
		c.Unresolved(rule, "no store into RespValue.Text found")
		return
	}
	if nbad == 0 {
		c.OK(rule, "copies of a RESP text keep null and empty apart", token.NoPos, fmt.Sprintf("%d stores into RespValue.Text examined, none is a nil-ness changing copy of another text", nst))
	}
}

// checkDigitAccumulation (C10.R10): a hand-written decimal parser (n = n*10 + digit over the bytes of a slice) has no
// overflow check of its own, so it is only an inverse of the encoder while the number of digits it can consume keeps
// the value inside the type: at most 18 digits for a signed 64-bit accumulator. The bound must follow from the guards
// that dominate the loop (zone witness on the length of the slice being scanned).
func checkDigitAccumulation(c *Ctx, rule string) {
	p := c.P
	n := 0
	for _, fn := range p.FuncsIn(redisPkg) {
		if p.isTestFn(fn) {
			continue
		}
		var bc *boundsCtx
		eachInstr(fn, func(b *ssa.BasicBlock, _ int, in ssa.Instruction) {
			mul, ok := in.(*ssa.BinOp)
			if !ok || mul.Op != token.MUL {
				return
			}
			var acc *ssa.Phi
			if k, isC := constInt(mul.Y); isC && k == 10 {
				acc, _ = mul.X.(*ssa.Phi)
			} else if k, isC := constInt(mul.X); isC && k == 10 {
				acc, _ = mul.Y.(*ssa.Phi)
			}
			if acc == nil || intBits(acc.Type()) == 0 {
				return
			}
			// the product feeds the accumulator again through an addition with a byte of a slice
			var src ssa.Value
			for _, r := range *mul.Referrers() {
				add, ok := r.(*ssa.BinOp)
				if !ok || add.Op != token.ADD {
					continue
				}
				feeds := false
				for _, e := range acc.Edges {
					if e == ssa.Value(add) {
						feeds = true
					}
				}
				if !feeds {
					continue
				}
				other := add.X
				if other == ssa.Value(mul) {
					other = add.Y
				}
				for depth := 0; depth < 6 && other != nil; depth++ {
					switch x := other.(type) {
					case *ssa.Convert:
						other = x.X
						continue
					case *ssa.BinOp:
						if _, isC := constInt(x.Y); isC {
							other = x.X
							continue
						}
						if _, isC := constInt(x.X); isC {
							other = x.Y
							continue
						}
					case *ssa.UnOp:
						if ia, ok := x.X.(*ssa.IndexAddr); ok && x.Op == token.MUL && isByteSliceVal(ia.X) {
							src = ia.X
						}
					}
					break
				}
			}
			if src == nil {
				return
			}
			n++
			site := fmt.Sprintf("%s decimal accumulation#%d stays inside its type", fnKey(fn), n)
			bits := intBits(acc.Type())
			maxDigits := int64(18)
			switch {
			case bits <= 32 && !isUnsigned(acc.Type()):
				maxDigits = 9
			case bits <= 32:
				maxDigits = 9
			case isUnsigned(acc.Type()):
				maxDigits = 19
			}
			if bc == nil {
				bc = newBoundsCtx(p, fn)
			}
			z := bc.zoneAt(b)
			if z.entLE(bc.lenOf(src), lconst(maxDigits)) {
				c.OK(rule, site, mul.Pos(), fmt.Sprintf("the scanned slice has at most %d bytes here (zone witness), so at most %d digits are accumulated into a %d-bit value", maxDigits, maxDigits, bits))
			} else {
				c.Fail(rule, site, mul.Pos(), fmt.Sprintf("n = n*10 + digit runs over a slice whose length is not bounded by %d at this point: a %d-digit input wraps the %d-bit accumulator silently (\":9223372036854775808\" decodes to a negative number with no error and re-encodes to different bytes)", maxDigits, maxDigits+1, bits))
			}
		})
	}
	if n == 0 {
		c.Note("no hand-written decimal accumulation in proc/redis")
		c.OK(rule, "no hand-written decimal accumulation", token.NoPos, "integers are parsed by strconv only")
	}
}

// checkSlabNeverRewinds (C10.R11, C01.R9): decoded values are cut out of a slab and stay referenced by their requests
// until the session writer has encoded them - for as long as an earlier request of the pipeline is outstanding. The
// allocator therefore hands out every byte at most once: its cursor field is only advanced (buf = buf[n:]) or pointed
// at a fresh chunk straight from make. Storing anything else into it (a remembered chunk: "rewind when idle") lets a
// later reply be decoded over the bytes of an earlier one that has not been written yet.
func checkSlabNeverRewinds(c *Ctx, rule string) {
	p := c.P
	at := p.Named(redisPkg, "sliceAlloc")
	if at == nil {
		c.Unresolved(rule, "sliceAlloc")
		return
	}
	st, _ := at.Underlying().(*types.Struct)
	var cursors []*types.Var
	for i := 0; st != nil && i < st.NumFields(); i++ {
		if sl, ok := st.Field(i).Type().Underlying().(*types.Slice); ok {
			if b, ok := sl.Elem().Underlying().(*types.Basic); ok && b.Kind() == types.Byte {
				cursors = append(cursors, st.Field(i))
			}
		}
	}
	if len(cursors) == 0 {
		c.Unresolved(rule, "byte-slice field of sliceAlloc")
		return
	}
	isCursor := func(f *types.Var) bool {
		for _, x := range cursors {
			if x == f {
				return true
			}
		}
		return false
	}
	// fresh: make, or the result of a module helper all of whose returns are a make
	var fresh func(v ssa.Value, depth int) bool
	fresh = func(v ssa.Value, depth int) bool {
		if depth > 2 {
			return false
		}
		switch x := v.(type) {
		case *ssa.MakeSlice:
			return true
		case *ssa.Slice:
			if al, ok := x.X.(*ssa.Alloc); ok && al.Heap {
				return true
			}
		case *ssa.Call:
			g := calleeFn(x.Common())
			if g == nil || !isModFn(g) || g.Blocks == nil {
				return false
			}
			ok, n := true, 0
			eachInstr(g, func(_ *ssa.BasicBlock, _ int, in ssa.Instruction) {
				if ret, isRet := in.(*ssa.Return); isRet && len(ret.Results) == 1 {
					n++
					if !fresh(returnedValues(ret)[0], depth+1) {
						ok = false
					}
				}
			})
			return ok && n > 0
		}
		return false
	}
	n, nbad := 0, 0
	for _, fn := range p.FuncsIn(redisPkg) {
		if p.isTestFn(fn) {
			continue
		}
		eachInstr(fn, func(_ *ssa.BasicBlock, _ int, in ssa.Instruction) {
			s, ok := in.(*ssa.Store)
			if !ok {
				return
			}
			f, _ := fieldAddr(s.Addr)
			if f == nil || !isCursor(f) {
				return
			}
			n++
			okv := fresh(s.Val, 0)
			if sl, isSl := s.Val.(*ssa.Slice); isSl && sl.Low != nil {
				if f2, _ := loadedField(sl.X); f2 == f {
					okv = true // advance
				}
			}
			if !okv {
				nbad++
				c.Fail(rule, fmt.Sprintf("%s store#%d into the slab cursor %s only advances or takes a fresh chunk", fnKey(fn), nbad, f.Name()), s.Pos(), "the slab allocator's cursor is set to something other than its own tail or a chunk straight from make: bytes that were handed out before are handed out again, so a reply is decoded over an earlier reply that its request still references - the earlier request's client reads the later reply's data")
			}
		})
	}
	if n == 0 {
		c.Unresolved(rule, "no store into the slab cursor")
		return
	}
	if nbad == 0 {
		c.OK(rule, "the slab cursor only advances or takes a fresh chunk", token.NoPos, fmt.Sprintf("%d stores examined", n))
	}
}

// checkLineEndMatchesSearch (C10.R12, C01.R10): the line reader finds its delimiter with bytes.IndexByte over a window
// buf[lo:hi] and returns buf[start:end]. The index is relative to lo, so the line ends at lo+index+1 - whatever lo is.
// Compared as linear forms over the field loads and locals of the function (two loads of the same field are the same
// term when no store to that field lies between the search and the slice).
func checkLineEndMatchesSearch(c *Ctx, rule string) {
	p := c.P
	n := 0
	for _, fn := range p.FuncsIn(redisPkg) {
		if p.isTestFn(fn) || fn.Signature.Recv() == nil || !modType(fn.Signature.Recv().Type(), redisPkg, "Reader") {
			continue
		}
		// the searches, and the values that carry their result (phis of searches)
		var calls []*ssa.Call
		idx := map[ssa.Value]bool{}
		eachInstr(fn, func(_ *ssa.BasicBlock, _ int, in ssa.Instruction) {
			if call, ok := in.(*ssa.Call); ok && isCallTo(call, "bytes.IndexByte") {
				if _, isSl := call.Call.Args[0].(*ssa.Slice); isSl {
					calls = append(calls, call)
					idx[call] = true
				}
			}
		})
		if len(calls) == 0 {
			continue
		}
		for changed := true; changed; {
			changed = false
			eachInstr(fn, func(_ *ssa.BasicBlock, _ int, in ssa.Instruction) {
				ph, ok := in.(*ssa.Phi)
				if !ok || idx[ph] {
					return
				}
				all := len(ph.Edges) > 0
				for _, e := range ph.Edges {
					if !idx[e] && e != ssa.Value(ph) {
						all = false
					}
				}
				if all {
					idx[ph] = true
					changed = true
				}
			})
		}
		type lform struct {
			co map[string]int64
			k  int64
		}
		var env map[*ssa.Parameter]lform // parameters of a helper, bound to the forms of the arguments at its call
		var lin func(v ssa.Value, depth int) lform
		lin = func(v ssa.Value, depth int) lform {
			out := lform{co: map[string]int64{}}
			if prm, isPrm := v.(*ssa.Parameter); isPrm && env != nil {
				if f, ok := env[prm]; ok {
					cp := lform{co: map[string]int64{}, k: f.k}
					for t, cc := range f.co {
						cp.co[t] = cc
					}
					return cp
				}
			}
			if cv, ok := constInt(v); ok {
				out.k = cv
				return out
			}
			if idx[v] {
				out.co["idx"] = 1
				return out
			}
			if depth < 6 {
				switch x := v.(type) {
				case *ssa.BinOp:
					if x.Op == token.ADD || x.Op == token.SUB {
						a, b := lin(x.X, depth+1), lin(x.Y, depth+1)
						sg := int64(1)
						if x.Op == token.SUB {
							sg = -1
						}
						for t, cc := range a.co {
							out.co[t] += cc
						}
						for t, cc := range b.co {
							out.co[t] += sg * cc
						}
						out.k = a.k + sg*b.k
						return out
					}
				case *ssa.UnOp:
					if x.Op == token.MUL {
						if ap := accessPath(x, nil, 0); ap != "" {
							out.co["fld:"+ap] = 1
							return out
						}
					}
				case *ssa.Convert:
					return lin(x.X, depth+1)
				}
			}
			out.co["v:"+v.Name()] = 1
			return out
		}
		eq := func(a, b lform) bool {
			if a.k != b.k {
				return false
			}
			for t, cc := range a.co {
				if cc != 0 && b.co[t] != cc {
					return false
				}
			}
			for t, cc := range b.co {
				if cc != 0 && a.co[t] != cc {
					return false
				}
			}
			return true
		}
		buf := accessPath(calls[0].Call.Args[0].(*ssa.Slice).X, nil, 0)
		// the slices of the buffer: in the function itself, and in a helper of the reader that is handed the length
		// (`return b.consume(i + 1)`)
		type sliceSite struct {
			sl  *ssa.Slice
			env map[*ssa.Parameter]lform
		}
		var sites []sliceSite
		eachInstr(fn, func(_ *ssa.BasicBlock, _ int, in2 ssa.Instruction) {
			if sl, ok := in2.(*ssa.Slice); ok {
				sites = append(sites, sliceSite{sl, nil})
				return
			}
			call, ok := in2.(*ssa.Call)
			if !ok {
				return
			}
			g := calleeFn(call.Common())
			if g == nil || g == fn || g.Blocks == nil || g.Signature.Recv() == nil || !types.Identical(g.Signature.Recv().Type(), fn.Signature.Recv().Type()) {
				return
			}
			e := map[*ssa.Parameter]lform{}
			env = nil
			for i, prm := range g.Params {
				if i > 0 && i < len(call.Call.Args) && intBits(prm.Type()) > 0 {
					e[prm] = lin(call.Call.Args[i], 0)
				}
			}
			eachInstr(g, func(_ *ssa.BasicBlock, _ int, y ssa.Instruction) {
				if sl, ok := y.(*ssa.Slice); ok {
					sites = append(sites, sliceSite{sl, e})
				}
			})
		})
		for _, ss := range sites {
			sl, in2 := ss.sl, ssa.Instruction(ss.sl)
			env = ss.env
			if sl.High == nil || buf == "" || accessPath(sl.X, nil, 0) != buf {
				continue
			}
			got := lin(sl.High, 0)
			if got.co["idx"] == 0 {
				continue
			}
			n++
			site := fmt.Sprintf("%s line end#%d is search start + index + 1", fnKey(fn), n)
			same := true
			for _, call := range calls {
				win := call.Call.Args[0].(*ssa.Slice)
				want := lform{co: map[string]int64{"idx": 1}, k: 1}
				if win.Low != nil {
					lo := lin(win.Low, 0)
					for t, cc := range lo.co {
						want.co[t] += cc
					}
					want.k += lo.k
				}
				if !eq(got, want) {
					same = false
				}
				// no store to a field of the forms between the search and the slice
				for t := range want.co {
					if !strings.HasPrefix(t, "fld:") {
						continue
					}
					eachInstr(fn, func(_ *ssa.BasicBlock, _ int, x ssa.Instruction) {
						st, ok := x.(*ssa.Store)
						if !ok {
							return
						}
						if f, _ := fieldAddr(st.Addr); f != nil && strings.HasSuffix(t, "."+f.Name()) {
							if findPath(posOf(call), pathQuery{target: func(y ssa.Instruction) bool { return y == x }, avoid: func(y ssa.Instruction) bool { return y == in2 }}) != nil && findPath(posOf(x), pathQuery{target: func(y ssa.Instruction) bool { return y == in2 }}) != nil {
								same = false
							}
						}
					})
				}
			}
			// ... and the returned line begins at the read position itself: a search that resumes behind the bytes already
			// scanned before a fill must still hand out those bytes
			startOK := sl.Low != nil
			if sl.Low != nil {
				lo := lin(sl.Low, 0)
				nf := 0
				for t, cc := range lo.co {
					if cc == 0 {
						continue
					}
					if strings.HasPrefix(t, "fld:") && cc == 1 {
						nf++
					} else {
						startOK = false
					}
				}
				if nf != 1 || lo.k != 0 {
					startOK = false
				}
			}
			c.Check(startOK, rule, fmt.Sprintf("%s line#%d starts at the read position", fnKey(fn), n), sl.Pos(), "the returned line starts at the reader's cursor", "the returned line does not start at the read position (an offset - e.g. the number of bytes already scanned before the last fill - is added to it): a line that arrives in two reads loses its head, so \":1|234567\" decodes as 234567 and a bulk length \"$1|0\" as 0 - what is decoded depends on how the bytes were fragmented")
			c.Check(same, rule, site, sl.Pos(), "end of the returned line = start of the searched window + index + 1", "the index returned by the search is relative to the start of the searched window, but the line end is computed from a different origin: when the window does not start at the read position (bytes already scanned before the last fill are skipped) the returned line is too short - the decoder sees a bad line terminator on a valid stream, the session (or the shared backend connection with everything in flight on it) is torn down, and whether that happens depends on how the bytes were fragmented")
		}
		env = nil
	}
	if n == 0 {
		c.Unresolved(rule, "no delimiter search in the line reader")
	}
}

// returnsDecodedInt: g is a helper that reads a length with decodeInt, range-checks it and returns it: every return
// with a nil error returns the number decodeInt produced.
func returnsDecodedInt(g *ssa.Function) bool {
	if g == nil || g.Blocks == nil || !isModFn(g) || g.Signature.Results().Len() != 2 {
		return false
	}
	var n ssa.Value
	eachInstr(g, func(_ *ssa.BasicBlock, _ int, in ssa.Instruction) {
		if call, ok := in.(*ssa.Call); ok {
			if h := calleeFn(call.Common()); h != nil && h.Name() == "decodeInt" {
				for _, r := range *call.Referrers() {
					if ex, ok := r.(*ssa.Extract); ok && ex.Index == 0 {
						n = ex
					}
				}
			}
		}
	})
	if n == nil {
		return false
	}
	ok, nret := true, 0
	eachInstr(g, func(_ *ssa.BasicBlock, _ int, in ssa.Instruction) {
		r, isRet := in.(*ssa.Return)
		if !isRet {
			return
		}
		vals := returnedValues(r)
		if len(vals) != 2 || !isNilConst(vals[1]) {
			return
		}
		nret++
		if vals[0] != n {
			ok = false
		}
	})
	return ok && nret > 0
}
